//! Scenario `hostile_udptl` (C07, fourth scenario): hostile datagrams at a UDPTL (T.38, RFC 3362) endpoint.
//! World: victim B = UdtlTransport on 10.0.0.2:4000 (real code: transports/udptl.rs, socket through the UDP seam) with its
//! UdtlReceiveBuffer, read by a harness task that calls recv() in a loop the way t38::FaxEndpoint does; its genuine peer
//! A = UdtlTransport on 10.0.0.1:4000 that sends IFP packets (redundancy depth 2) every 20 ms; an attacker that injects
//! datagrams from a third host or with A's address. (The T.30 / spandsp layer above is an FFI feature that is not built.)
//! plan.ops: kind "udptl" a = [shape, n, seed, spoof]
//!   shape 0 datagrams of 0..4 bytes; 1 primary length beyond the datagram; 2 up to 700 redundant entries of length 0;
//!         3 redundant length beyond the datagram; 4 sequence numbers around the wrap / half-space / far ahead (n
//!         datagrams); 5 a run of 3n (up to 2100) datagrams with distinct sequence numbers ahead of the expected one (receive-buffer growth);
//!         6 a 1400 / 9000 / 65507-byte datagram (well-formed primary); 7 random bytes; 8 a duplicate of a genuine
//!         datagram captured on the wire; 9 primary length 0 and 65535; 10 sequence arithmetic away from the start: the
//!         application restarts reception at a base in {32760, 65500, 16380, 32767} (UdtlReceiveBuffer::reset, as at a new
//!         fax page), then base+1 (buffered), base, base+2 .. base+n arrive (in-order delivery across the half-space / wrap
//!         with a non-empty buffer behind it)
//! Oracles: C07.panic (panic hook), C07.hang (every delivered datagram makes recv() return within the settle window; CPU
//! budget), C07.alloc (bytes requested in an input's window <= 64 x bytes + 64 KiB + n x (max_datagram + 2 KiB), single
//! request <= the same), C07.alive (after the hostile phase recv() still returns for genuine datagrams, and after the
//! harness resynchronises the receive buffer - reset(), what an application does on a new fax page - the genuine IFP
//! stream is delivered in order again).
use super::Tier;
use crate::plan::*;
use crate::sim::Ctx;
use rustrtc::transports::udptl::{UdtlReceiveBuffer, UdtlTransport};
use rustrtc::verif_hooks as vh;
use std::net::SocketAddr;
use std::sync::atomic::{AtomicU64, Ordering};
use std::sync::{Arc, Mutex};
use std::time::Duration;

const SHAPES: i64 = 11;

pub fn budget(_prop: &str, tier: Tier) -> u64 {
    match tier {
        Tier::Quick => 300,
        Tier::Thorough => 10_000,
    }
}

pub fn generate(prop: &str, seed: u64, idx: u64, _tier: Tier) -> Plan {
    let mut r = Rng::new(mix(mix(seed, idx), fnv(FNV0, prop.as_bytes()) ^ 0x7564_7074_6c));
    let mut p = Plan { prop: prop.into(), scenario: "hostile_udptl".into(), seed: r.next(), ..Default::default() };
    p.latency_us = [r.range(200, 20_000), r.range(200, 20_000)];
    p.sched = Sched { rng_seed: r.next(), defer_pct: if r.chance(60) { 0 } else { r.range(1, 30) as u8 } };
    p.heal_at_ms = 0;
    let core = (SHAPES * 2) as u64;
    let ops: Vec<[i64; 4]> = if idx < core {
        let i = idx as i64;
        vec![[i % SHAPES, *r.pick(&[1i64, 5, 200]), r.below(1 << 30) as i64, i / SHAPES]]
    } else {
        let n = if r.chance(7) { 0 } else { r.range(1, 6) };
        (0..n).map(|_| [r.below(SHAPES as u64) as i64, *r.pick(&[1i64, 3, 20, 200, 700]), r.below(1 << 30) as i64, r.below(2) as i64]).collect()
    };
    for (i, a) in ops.iter().enumerate() {
        p.ops.push(Op::new(200 + i as u64 * r.range(1, 300), "udptl", a));
    }
    p
}

fn udptl(seq: u16, primary: &[u8], claimed: Option<u16>, red: &[(u16, Vec<u8>)]) -> Vec<u8> {
    let mut v = seq.to_be_bytes().to_vec();
    v.extend_from_slice(&claimed.unwrap_or(primary.len() as u16).to_be_bytes());
    v.extend_from_slice(primary);
    for (l, d) in red {
        v.extend_from_slice(&l.to_be_bytes());
        v.extend_from_slice(d);
    }
    v
}

fn hostile(shape: i64, n: i64, seed: u64, expected: u16, captured: Option<Vec<u8>>) -> Vec<Vec<u8>> {
    let mut r = Rng::new(seed);
    let n = n.clamp(1, 700) as usize;
    let mut rnd = |len: usize| {
        let mut v = vec![0u8; len];
        r.fill(&mut v);
        v
    };
    match shape {
        0 => (0..5).map(|l| rnd(l)).collect(),
        1 => vec![udptl(expected, &rnd(10), Some([11u16, 1000, 65535][(seed % 3) as usize]), &[])],
        2 => vec![udptl(expected, &rnd(4), None, &(0..n).map(|_| (0u16, Vec::new())).collect::<Vec<_>>())],
        3 => vec![udptl(expected, &rnd(4), None, &[(3, rnd(3)), ([4u16, 500, 65535][(seed % 3) as usize], rnd(3))])],
        4 => {
            let offs: [u16; 8] = [0xFFFF, 0x8000, 0x7FFF, 0x4000, 0x3FFF, 1, 0, 16384];
            (0..n.min(64)).map(|i| udptl(expected.wrapping_add(offs[(seed as usize + i) % 8]).wrapping_add(i as u16), &rnd(8), None, &[])).collect()
        }
        5 => (0..3 * n).map(|i| udptl(expected.wrapping_add(40).wrapping_add(7 * i as u16), &rnd(200), None, &[])).collect(),
        6 => {
            let l = [1400usize, 9000, 65_507][(seed % 3) as usize];
            vec![udptl(expected, &rnd(l - 4), None, &[])]
        }
        7 => vec![rnd(1 + (seed % 1400) as usize)],
        8 => captured.map(|c| vec![c.clone(), c]).unwrap_or_else(|| vec![rnd(6)]),
        10 => {
            let mut v = vec![udptl(expected.wrapping_add(1), &rnd(6), None, &[]), udptl(expected, &rnd(6), None, &[])];
            v.extend((2..n.min(300) as u16 + 2).map(|k| udptl(expected.wrapping_add(k), &rnd(6), None, &[])));
            // one far-ahead packet in the middle keeps the out-of-order buffer populated
            v.insert(v.len() / 2, udptl(expected.wrapping_add(40), &rnd(6), None, &[]));
            v
        }
        _ => vec![udptl(expected, &[], Some(0), &[]), udptl(expected.wrapping_add(1), &[], Some(65535), &[])],
    }
}

pub async fn run(ctx: &Ctx) {
    super::hostile::mark_run_start_cpu();
    let a_addr: SocketAddr = "10.0.0.1:4000".parse().unwrap();
    let b_addr: SocketAddr = "10.0.0.2:4000".parse().unwrap();
    let m_addr: SocketAddr = "10.0.0.66:4000".parse().unwrap();
    let (sa, sb) = match (ctx.net.bind(a_addr), ctx.net.bind(b_addr)) {
        (Ok(a), Ok(b)) => (a, b),
        _ => {
            ctx.violate("HARNESS.hostile_udptl", "bind".into());
            return;
        }
    };
    let ta = Arc::new(UdtlTransport::new(Arc::new(vh::UdpSocket::from_sim(sa)), b_addr));
    let tb = Arc::new(UdtlTransport::new(Arc::new(vh::UdpSocket::from_sim(sb)), a_addr));
    ctx.net.capture(true);
    // B's reader: recv() in a loop; every return is counted, delivered IFPs are kept
    let returns = Arc::new(AtomicU64::new(0));
    let delivered: Arc<Mutex<Vec<Vec<u8>>>> = Arc::new(Mutex::new(Vec::new()));
    let rbuf = Arc::new(tokio::sync::Mutex::new(UdtlReceiveBuffer::new()));
    let reader = {
        let (tb, returns, delivered, rbuf) = (tb.clone(), returns.clone(), delivered.clone(), rbuf.clone());
        tokio::spawn(vh::wrap_task(async move {
            loop {
                let mut g = rbuf.lock().await;
                let r = tb.recv(&mut g).await;
                drop(g);
                returns.fetch_add(1, Ordering::SeqCst);
                match r {
                    Ok(Some(ifp)) => delivered.lock().unwrap().push(ifp),
                    Ok(None) => {}
                    Err(_) => break,
                }
                tokio::task::yield_now().await;
            }
        }))
    };
    // A's sender: IFP i every 20 ms
    let sent = Arc::new(AtomicU64::new(0));
    let stop = Arc::new(std::sync::atomic::AtomicBool::new(false));
    let sender = {
        let (ta, sent, stop) = (ta.clone(), sent.clone(), stop.clone());
        tokio::spawn(vh::wrap_task(async move {
            let mut i = 0u32;
            while !stop.load(Ordering::SeqCst) {
                let mut ifp = vec![0xF0u8; 12 + (i as usize % 5) * 7];
                ifp[1..5].copy_from_slice(&i.to_be_bytes());
                if ta.send(&ifp).await.is_err() {
                    break;
                }
                sent.fetch_add(1, Ordering::SeqCst);
                i += 1;
                tokio::time::sleep(Duration::from_millis(20)).await;
            }
        }))
    };
    let settle = Duration::from_millis(2 * ctx.plan.latency_us[1].div_ceil(1000) + 30);
    let ops: Vec<Op> = ctx.plan.ops.iter().filter(|o| o.kind == "udptl").cloned().collect();
    for op in &ops {
        ctx.sleep_until_ms(op.at_ms).await;
        let (shape, n, seed, spoof) = (op.arg(0), op.arg(1), op.arg(2) as u64, op.arg(3) != 0);
        if shape == 10 {
            let base = [32_760u16, 65_500, 16_380, 32_767][(seed % 4) as usize];
            rbuf.lock().await.reset(base);
            ctx.ev("app B restarts reception", &format!("reset({base})"));
        }
        let expected = rbuf.lock().await.expected_seq();
        let captured = ctx.net.take_captured().into_iter().rev().find(|(f, t, _)| *f == a_addr && *t == b_addr).map(|x| x.2);
        let dgrams = hostile(shape, n, seed, expected, captured);
        let total: usize = dgrams.iter().map(|d| d.len()).sum();
        let desc = format!("udptl shape={shape} n={} seed={seed} spoof={} bytes={total}", dgrams.len(), spoof as u8);
        crate::sim::set_last_input(&desc);
        ctx.ev(&format!("hostile udptl shape={shape} spoof={}", spoof as u8), &desc);
        ctx.stat("nontrivial", 1);
        ctx.stat(&format!("hostile.udptl.shape.{shape}"), 1);
        let panics0 = crate::sim::panic_count();
        // idle window of the same length (the genuine stream keeps flowing in both windows)
        let i0 = crate::alloc_count::allocated();
        let _ = crate::alloc_count::take_max_single();
        tokio::time::sleep(settle).await;
        let idle = crate::alloc_count::allocated() - i0;
        let idle_single = crate::alloc_count::take_max_single();
        let r0 = returns.load(Ordering::SeqCst);
        let a0 = crate::alloc_count::allocated();
        let ev0 = ctx.sh.lock().unwrap().events;
        let wall = std::time::Instant::now();
        for d in &dgrams {
            ctx.net.inject(if spoof { a_addr } else { m_addr }, b_addr, d);
        }
        tokio::time::sleep(settle).await;
        let cost = crate::alloc_count::allocated() - a0;
        let single = crate::alloc_count::take_max_single();
        if crate::sim::panic_count() > panics0 {
            break;
        }
        if super::hostile::over_budget(wall.elapsed()) {
            ctx.violate("C07.hang", format!("settling after {desc} took {:.1} s of wall clock", wall.elapsed().as_secs_f64()));
        }
        let got = returns.load(Ordering::SeqCst) - r0;
        if (got as usize) < dgrams.len() {
            ctx.violate("C07.hang", format!("{} hostile datagram(s) delivered but recv() returned only {got} time(s) within {} ms: {desc}", dgrams.len(), settle.as_millis()));
        }
        // every datagram costs one receive buffer of max_datagram bytes by design (vec![0; max_datagram] per recv call)
        let harness = 1024 * (ctx.sh.lock().unwrap().events - ev0);
        let limit = 64 * total as u64 + 64 * 1024 + dgrams.len() as u64 * (1400 + 2048) + harness;
        if single > limit && single > 2 * idle_single {
            ctx.violate("C07.alloc", format!("a single allocation request of {single} bytes while handling {desc} (allowance {limit})"));
        } else if cost > 2 * idle + limit {
            ctx.violate("C07.alloc", format!("{cost} bytes requested while handling {desc} (idle window {idle}, allowance {limit})"));
        }
        let buffered = rbuf.lock().await.buffered_count();
        if buffered > 1024 {
            ctx.violate("C07.alloc", format!("the receive buffer holds {buffered} out-of-order packets after {desc}"));
        }
    }
    crate::sim::set_last_input("");
    // C07.alive: recv() still returns for genuine datagrams; after a resynchronisation the stream is delivered in order
    if crate::sim::panic_count() == 0 {
        let r0 = returns.load(Ordering::SeqCst);
        let s0 = sent.load(Ordering::SeqCst);
        tokio::time::sleep(Duration::from_millis(200) + settle).await;
        let (dr, ds) = (returns.load(Ordering::SeqCst) - r0, sent.load(Ordering::SeqCst) - s0);
        if ds >= 5 && dr + 3 < ds {
            ctx.violate("C07.alive", format!("after the hostile UDPTL inputs A sent {ds} datagrams but recv() returned only {dr} times"));
        }
        // resynchronise to the next genuine sequence number, as an application does when it (re)starts reception
        // (three ahead of what A sends next: the reader task may consume datagrams already in flight before the reset
        // takes effect, and the receive buffer has no way of skipping a sequence number it never sees)
        let next_seq = ta.current_seq().wrapping_add(3);
        rbuf.lock().await.reset(next_seq);
        delivered.lock().unwrap().clear();
        tokio::time::sleep(Duration::from_millis(300) + settle).await;
        let got = delivered.lock().unwrap().clone();
        let idxs: Vec<u32> = got.iter().filter(|d| d.len() >= 5).map(|d| u32::from_be_bytes([d[1], d[2], d[3], d[4]])).collect();
        let in_order = idxs.windows(2).all(|w| w[1] == w[0] + 1);
        if idxs.len() < 5 || !in_order {
            ctx.violate("C07.alive", format!("after a reset to the sender's next sequence number {next_seq} the receiver delivered {} IFP packet(s) in 300 ms (in order: {in_order}): {:?}", idxs.len(), &idxs[..idxs.len().min(12)]));
        } else {
            ctx.ev("alive ok", "");
        }
    }
    stop.store(true, Ordering::SeqCst);
    tokio::time::sleep(Duration::from_millis(50)).await;
    sender.abort();
    reader.abort();
    let _ = sender.await;
    let _ = reader.await;
    drop(ta);
    drop(tb);
    tokio::time::sleep(Duration::from_millis(50)).await;
    ctx.stat("virt_ms", ctx.now_ms());
}
