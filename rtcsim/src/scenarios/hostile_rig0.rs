// (included into hostile.rs) rig 0: layer rig IceConn -> DTLS -> SCTP -> DataChannel.
mod rig0 {
    use super::*;
    use crate::rig::{dtls_state_name, layer_ep, LayerEp};
    use rustrtc::transports::sctp::{DataChannel, DataChannelConfig, DataChannelEvent, SctpTransport};
    use rustrtc::verif_hooks as vh;
    use rustrtc::RtcConfiguration;
    use std::sync::atomic::{AtomicU32, Ordering};
    use tokio::sync::mpsc;

    pub struct Side {
        pub ep: LayerEp,
        pub sctp: Arc<SctpTransport>,
        pub neg: Arc<DataChannel>,
        pub open: Arc<AtomicU32>,
        pub pongs: Arc<AtomicU32>,
        pub msgs: Arc<AtomicU32>,
        pub aux: Vec<tokio::task::JoinHandle<()>>,
    }

    fn spawn_recv(side: usize, dc: Arc<DataChannel>, sctp: Arc<SctpTransport>, open: Arc<AtomicU32>, pongs: Arc<AtomicU32>, msgs: Arc<AtomicU32>, sh: crate::net::SharedRef) -> tokio::task::JoinHandle<()> {
        tokio::spawn(vh::wrap_task(async move {
            let who = ["A", "B"][side];
            loop {
                match dc.recv().await {
                    Some(DataChannelEvent::Open) => {
                        open.fetch_add(1, Ordering::SeqCst);
                        sh.lock().unwrap().event(&format!("app {who} ch{} Open", dc.id), "");
                    }
                    Some(DataChannelEvent::Message(m)) => {
                        msgs.fetch_add(1, Ordering::SeqCst);
                        if m.starts_with(b"PING") {
                            let mut r = b"PONG".to_vec();
                            r.extend_from_slice(&m[4..]);
                            let _ = sctp.send_data(dc.id, &r).await;
                        } else if m.starts_with(b"PONG") {
                            pongs.fetch_add(1, Ordering::SeqCst);
                        }
                    }
                    Some(DataChannelEvent::Close) => {
                        sh.lock().unwrap().event(&format!("app {who} ch{} Close", dc.id), "");
                    }
                    None => break,
                }
            }
        }))
    }

    pub async fn make_side(ctx: &Ctx, side: usize, cfg: &RtcConfiguration) -> Side {
        let (host, peer, is_client) = if side == 0 { ("A", "B", true) } else { ("B", "A", false) };
        let mut ep = layer_ep(ctx, host, peer, is_client, side, None).await;
        let neg = Arc::new(DataChannel::new(100, DataChannelConfig { label: "neg".into(), ordered: true, negotiated: Some(100), ..Default::default() }));
        let mut list = vec![Arc::downgrade(&neg)];
        // the DTLS client creates one in-band (DCEP) channel as well
        let inband = if side == 0 { Some(Arc::new(DataChannel::new(0, DataChannelConfig { label: "inband".into(), protocol: "p".into(), ordered: true, ..Default::default() }))) } else { None };
        if let Some(d) = &inband {
            list.push(Arc::downgrade(d));
        }
        let dcs = Arc::new(parking_lot::Mutex::new(list));
        let (ndc_tx, mut ndc_rx) = mpsc::unbounded_channel::<Arc<DataChannel>>();
        let (sctp, runner) = SctpTransport::new(ep.dtls.clone(), ep.incoming.take().unwrap(), dcs, 5000, 5000, Some(ndc_tx), is_client, cfg);
        ep.tasks.push(tokio::spawn(vh::wrap_task(runner)));
        let open = Arc::new(AtomicU32::new(0));
        let pongs = Arc::new(AtomicU32::new(0));
        let msgs = Arc::new(AtomicU32::new(0));
        let mut aux = vec![spawn_recv(side, neg.clone(), sctp.clone(), open.clone(), pongs.clone(), msgs.clone(), ctx.sh.clone())];
        if let Some(d) = inband {
            aux.push(spawn_recv(side, d, sctp.clone(), Arc::new(AtomicU32::new(0)), pongs.clone(), msgs.clone(), ctx.sh.clone()));
        }
        {
            let (sctp2, pongs2, msgs2, sh) = (sctp.clone(), pongs.clone(), msgs.clone(), ctx.sh.clone());
            aux.push(tokio::spawn(vh::wrap_task(async move {
                let mut keep = Vec::new();
                while let Some(dc) = ndc_rx.recv().await {
                    sh.lock().unwrap().event(&format!("app {} in-band channel", ["A", "B"][side]), &format!("id={} label={:?}", dc.id, dc.label));
                    keep.push(spawn_recv(side, dc, sctp2.clone(), Arc::new(AtomicU32::new(0)), pongs2.clone(), msgs2.clone(), sh.clone()));
                    if keep.len() > 64 {
                        keep.remove(0);
                    }
                }
            })));
        }
        Side { ep, sctp, neg, open, pongs, msgs, aux }
    }

    pub fn tasks_alive(s: &Side) -> bool {
        s.ep.tasks.iter().all(|t| !t.is_finished())
    }
    pub fn describe(s: &Side) -> String {
        format!("dtls={} sctp_close_reason={:?} tasks_finished={:?}", dtls_state_name(&s.ep.dtls), s.sctp.close_reason(), s.ep.tasks.iter().map(|t| t.is_finished()).collect::<Vec<_>>())
    }
}

async fn run_rig0(ctx: &Ctx) {
    use rig0::*;
    use std::sync::atomic::Ordering;
    let plan = &ctx.plan;
    let mut eng = Engine::new(ctx, ["10.0.0.1", "10.0.0.2"]);
    {
        let mut h = eng.hub.lock().unwrap();
        h.last_pair = [Some((addr("B", 5000), addr("A", 5000))), Some((addr("A", 5000), addr("B", 5000)))];
    }
    let mut cfg = rustrtc::RtcConfiguration::default();
    cfg.sctp_heartbeat_interval = Duration::from_millis(plan.knob("hb_ms", 15000) as u64);
    // ---- phase 0: the server side exists and waits; nothing genuine has been sent yet
    eng.set_phase(PH_PRE);
    let mut sb = make_side(ctx, 1, &cfg).await;
    {
        let c = sb.ep.conn.clone();
        eng.rx_counters[1] = Some(Box::new(move || c.rx_packets.load(Ordering::Relaxed)));
    }
    let t0 = ctx.now_ms();
    eng.run_timed(PH_PRE, t0).await;
    // ---- phase 1: handshakes (DTLS, SCTP, DCEP)
    eng.set_phase(PH_HS);
    eng.delivered_in_phase = 0;
    let mut sa = make_side(ctx, 0, &cfg).await;
    {
        let c = sa.ep.conn.clone();
        eng.rx_counters[0] = Some(Box::new(move || c.rx_packets.load(Ordering::Relaxed)));
        let (s0, s1) = (sa.sctp.clone(), sb.sctp.clone());
        eng.probes.push(("sctp_layer_saw_hostile_packet".into(), Box::new(move || s0.link_stats().bytes_received + s1.link_stats().bytes_received)));
    }
    let t1 = ctx.now_ms();
    let (oa, ob) = (sa.open.clone(), sb.open.clone());
    let established = {
        let fut_timed = async {};
        let _ = fut_timed;
        eng.serve(45_000, || oa.load(Ordering::SeqCst) >= 1 && ob.load(Ordering::SeqCst) >= 1).await
    };
    eng.run_timed(PH_HS, t1).await;
    ctx.ev(&format!("established={established}"), &format!("A: {} B: {}", describe(&sa), describe(&sb)));
    let mut alive_judged = false;
    if established {
        // ---- phase 2: established, with a data-channel workload
        eng.set_phase(PH_EST);
        eng.delivered_in_phase = 0;
        let nmsg = plan.knob("msgs", 6).clamp(0, 200) as u32;
        let gap = plan.knob("msg_gap_ms", 10).clamp(1, 1000) as u64;
        let mut wl = Vec::new();
        for (s, ch) in [(&sa, 100u16), (&sb, 100u16), (&sa, 0u16)] {
            let sctp = s.sctp.clone();
            wl.push(tokio::spawn(rustrtc::verif_hooks::wrap_task(async move {
                for i in 0..nmsg {
                    let mut m = format!("W{i:05}").into_bytes();
                    m.resize(20 + (i as usize * 37) % 900, b'.');
                    let _ = sctp.send_data(ch, &m).await;
                    tokio::time::sleep(Duration::from_millis(gap)).await;
                }
            })));
        }
        let t2 = ctx.now_ms();
        eng.run_timed(PH_EST, t2).await;
        let est_ms = plan.knob("est_ms", 200).clamp(50, 20_000) as u64;
        let hub = eng.hub.clone();
        eng.serve(est_ms, || wl.iter().all(|h| h.is_finished()) && hub.lock().unwrap().ops.iter().all(|o| o.fired || o.phase != PH_EST)).await;
        for h in wl {
            h.abort();
        }
        // ---- C07.alive (no op fires while the genuine exchange runs)
        eng.set_phase(PH_PROBE);
        if crate::sim::panic_count() > 0 {
            ctx.stat("escape.alive_not_judged_after_panic", 1);
        } else if eng.may_end {
            ctx.stat("escape.alive_not_judged_input_may_end", 1);
        } else {
            alive_judged = true;
            if !tasks_alive(&sa) || !tasks_alive(&sb) {
                ctx.violate("C07.alive", format!("an endpoint task ended although genuine traffic was never harmed and no hostile input was one a peer may end the connection with; A: {} B: {}", describe(&sa), describe(&sb)));
            }
            let (pa, pb) = (sa.pongs.load(Ordering::SeqCst), sb.pongs.load(Ordering::SeqCst));
            let ra = sa.sctp.send_data(100, b"PING from A").await;
            let rb = sb.sctp.send_data(100, b"PING from B").await;
            let (qa, qb) = (sa.pongs.clone(), sb.pongs.clone());
            let ok = eng.serve(30_000, || qa.load(Ordering::SeqCst) > pa && qb.load(Ordering::SeqCst) > pb).await;
            if !ok {
                ctx.violate(
                    "C07.alive",
                    format!(
                        "after the hostile phase a genuine data-channel round trip did not complete within 30 s (send A: {:?}, send B: {:?}, echo seen by A: {}, by B: {}); A: {} B: {}; A sctp: {} B sctp: {}",
                        ra.is_ok(), rb.is_ok(), sa.pongs.load(Ordering::SeqCst) > pa, sb.pongs.load(Ordering::SeqCst) > pb, describe(&sa), describe(&sb), sa.sctp.diagnostic_info(), sb.sctp.diagnostic_info()
                    ),
                );
            } else {
                ctx.ev("alive ok", "");
            }
        }
        // ---- phase 3: closing
        if plan.knob("close", 1) == 1 {
            eng.set_phase(PH_CLOSING);
            eng.delivered_in_phase = 0;
            let closer = if plan.knob("closer", 0) == 0 { &sa } else { &sb };
            ctx.ev(&format!("api {} close", closer.ep.host), "");
            closer.sctp.close();
            let t3 = ctx.now_ms();
            if plan.knob("close_dtls", 1) == 1 {
                closer.ep.dtls.close();
            }
            eng.run_timed(PH_CLOSING, t3).await;
            eng.serve(300, || false).await;
        }
    } else if crate::sim::panic_count() > 0 {
        ctx.stat("escape.alive_not_judged_after_panic", 1);
    } else if eng.may_end || eng.raced {
        ctx.stat("escape.handshake_not_completed_after_unauthenticated_handshake_input", 1);
    } else {
        alive_judged = true;
        ctx.violate("C07.alive", format!("the handshakes did not complete within 45 s although genuine traffic was never harmed and no hostile input was a cleartext handshake record; A: {} B: {}", describe(&sa), describe(&sb)));
    }
    if alive_judged {
        ctx.stat("alive_judged", 1);
    }
    eng.finish_stats();
    drop(eng);
    for s in [&mut sa, &mut sb] {
        for t in s.aux.drain(..) {
            t.abort();
        }
        s.sctp.close();
        s.ep.dtls.close();
        let _ = &s.neg;
        let _ = s.msgs.load(Ordering::SeqCst);
    }
    tokio::time::sleep(Duration::from_millis(5)).await;
    sa.ep.abort_all();
    sb.ep.abort_all();
    tokio::time::sleep(Duration::from_millis(5)).await;
}
