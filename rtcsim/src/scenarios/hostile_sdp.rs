// (included into hostile.rs) rig 3: hostile signaling text.
// Op `sdp_mut`, a = [target (0 fresh PeerConnection, 1 the connected one), what (0 offer, 1 answer, 2 candidate string),
//                    kind (SDP_KINDS index), seed, count]
// Genuine offer / answer / candidate text produced by real PeerConnections is mutated and fed to
// SessionDescription::parse + set_remote_description (+ create_answer / set_local_description when accepted) or
// IceCandidate::from_sdp + add_ice_candidate.
mod sdprig {
    use super::*;

    pub const SDP_KINDS: &[&str] = &[
        "delete-line", "duplicate-line", "reorder-lines", "numeric-boundary", "mid-forms", "payload-types", "extmap-ids", "crypto-lines", "fingerprint-forms", "simulcast-rid", "candidate-lines", "long-line", "control-chars",
        "m-line-forms", "ssrc-lines", "c-o-t-lines", "truncate", "sctp-lines", "ice-cred-setup", "rtcp-fmtp-rtx",
    ];
    pub const BIG: &[&str] = &["0", "1", "15", "16", "127", "128", "255", "256", "1023", "4095", "4096", "65535", "65536", "2147483647", "2147483648", "4294967295", "4294967296", "9223372036854775807", "18446744073709551615", "18446744073709551616", "-1", "-0", "99999999999999999999999", "0x10", "1e9", "+5", " 7", ""];

    fn lines_of(s: &str) -> Vec<String> {
        s.lines().map(|l| l.trim_end_matches('\r').to_string()).collect()
    }
    fn join(l: &[String]) -> String {
        let mut s = l.join("\r\n");
        s.push_str("\r\n");
        s
    }
    /// index after the first m= line of a random media section (attributes of that section go here)
    fn media_pos(l: &[String], r: &mut Rng) -> usize {
        let ms: Vec<usize> = l.iter().enumerate().filter(|(_, x)| x.starts_with("m=")).map(|(i, _)| i).collect();
        if ms.is_empty() { l.len() } else { ms[r.below(ms.len() as u64) as usize] + 1 }
    }
    fn replace_num(line: &str, r: &mut Rng) -> Option<String> {
        // numeric tokens: maximal digit runs
        let b = line.as_bytes();
        let mut spans = Vec::new();
        let mut i = 0;
        while i < b.len() {
            if b[i].is_ascii_digit() {
                let s = i;
                while i < b.len() && b[i].is_ascii_digit() {
                    i += 1;
                }
                spans.push((s, i));
            } else {
                i += 1;
            }
        }
        if spans.is_empty() {
            return None;
        }
        let (s, e) = spans[r.below(spans.len() as u64) as usize];
        Some(format!("{}{}{}", &line[..s], r.pick(BIG), &line[e..]))
    }

    pub fn mutate_sdp(genuine: &str, kind: i64, r: &mut Rng) -> (String, String) {
        let mut l = lines_of(genuine);
        let n = l.len().max(1);
        let k = kind.rem_euclid(SDP_KINDS.len() as i64) as usize;
        let what: String;
        match k {
            0 => {
                let i = r.below(n as u64) as usize;
                what = format!("delete line {i}: {:?}", l.get(i));
                if i < l.len() {
                    l.remove(i);
                }
            }
            1 => {
                let i = r.below(n as u64) as usize;
                let reps = *r.pick(&[1usize, 2, 16, 50, 300]);
                let x = l[i.min(l.len() - 1)].clone();
                for _ in 0..reps {
                    l.insert(i.min(l.len()), x.clone());
                }
                what = format!("duplicate line {i} x{reps}: {x:?}");
            }
            2 => {
                let (i, j) = (r.below(n as u64) as usize, r.below(n as u64) as usize);
                match r.below(3) {
                    0 => l.swap(i, j),
                    1 => {
                        let x = l.remove(i);
                        l.insert(0, x);
                    }
                    _ => {
                        let x = l.remove(i);
                        l.push(x);
                    }
                }
                what = format!("reorder lines {i}/{j}");
            }
            3 => {
                let mut done = None;
                for _ in 0..20 {
                    let i = r.below(n as u64) as usize;
                    if let Some(x) = replace_num(&l[i], r) {
                        done = Some((i, l[i].clone(), x.clone()));
                        l[i] = x;
                        break;
                    }
                }
                what = format!("numeric boundary {done:?}");
            }
            4 => {
                let v = *r.pick(&["65535", "65534", "4294967295", "18446744073709551615", "255", "256", "-1", "abc", "", "0 1", "\u{1F600}", "00", "0x1"]);
                let v = if r.chance(10) { "9".repeat(300) } else { v.to_string() };
                let mids: Vec<usize> = l.iter().enumerate().filter(|(_, x)| x.starts_with("a=mid:")).map(|(i, _)| i).collect();
                let mode = r.below(4);
                if !mids.is_empty() {
                    let i = mids[r.below(mids.len() as u64) as usize];
                    match mode {
                        0 | 1 => l[i] = format!("a=mid:{v}"),
                        2 => {
                            // change in the BUNDLE group as well, consistently
                            let old = l[i][6..].to_string();
                            l[i] = format!("a=mid:{v}");
                            for x in l.iter_mut() {
                                if x.starts_with("a=group:BUNDLE") {
                                    *x = x.split(' ').map(|t| if t == old { v.clone() } else { t.to_string() }).collect::<Vec<_>>().join(" ");
                                }
                            }
                        }
                        _ => {
                            for i in mids.iter() {
                                l[*i] = format!("a=mid:{v}");
                            }
                        }
                    }
                } else {
                    let p = media_pos(&l, r);
                    l.insert(p, format!("a=mid:{v}"));
                }
                what = format!("mid form {v:?} mode={mode}");
            }
            5 => {
                let v = *r.pick(&["0", "127", "128", "255", "256", "-1", "*", "96 96", "96 96 96 96", "", "35 36 37 38 39 40 41 42 43 44 45 46 47 48 49 50 51 52 53 54 55 56 57 58 59 60 61 62 63 64 65 66", "abc"]);
                let mode = r.below(4);
                for x in l.iter_mut() {
                    if mode == 0 && x.starts_with("m=") {
                        let f: Vec<&str> = x.split(' ').collect();
                        if f.len() >= 4 {
                            *x = format!("{} {} {} {v}", f[0], f[1], f[2]);
                            break;
                        }
                    }
                    if mode == 1 && x.starts_with("a=rtpmap:") {
                        let rest = x.split_once(' ').map(|p| p.1).unwrap_or("opus/48000/2").to_string();
                        *x = format!("a=rtpmap:{v} {rest}");
                    }
                    if mode == 2 && (x.starts_with("a=fmtp:") || x.starts_with("a=rtcp-fb:")) {
                        let (h, rest) = x.split_once(' ').unwrap_or((x.as_str(), ""));
                        let key = h.split(':').next().unwrap_or("a=fmtp");
                        *x = format!("{key}:{v} {rest}");
                    }
                    if mode == 3 && x.starts_with("a=rtpmap:") {
                        let h = x.split(' ').next().unwrap_or("a=rtpmap:96").to_string();
                        *x = format!("{h} {}", r.pick(&["", "/", "VP8", "VP8/", "VP8/0", "VP8/4294967296", "opus/48000/256", "opus/48000/-1", "/90000", "telephone-event/8000", "rtx/90000", "H264/90000/1/1"]));
                    }
                }
                what = format!("payload type {v:?} mode={mode}");
            }
            6 => {
                let id = *r.pick(&["0", "15", "16", "255", "256", "4095", "-1", "1/sendonly", "1/", "", "1 ", "abc", "14/recvonly/x"]);
                let uri = *r.pick(&["urn:ietf:params:rtp-hdrext:sdes:mid", "urn:ietf:params:rtp-hdrext:sdes:rtp-stream-id", "http://www.webrtc.org/experiments/rtp-hdrext/abs-send-time", "urn:ietf:params:rtp-hdrext:ssrc-audio-level", "", "x"]);
                let p = media_pos(&l, r);
                let mut replaced = false;
                if r.chance(50) {
                    for x in l.iter_mut() {
                        if x.starts_with("a=extmap:") {
                            let rest = x.split_once(' ').map(|p| p.1).unwrap_or("").to_string();
                            *x = format!("a=extmap:{id} {rest}");
                            replaced = true;
                        }
                    }
                }
                if !replaced {
                    l.insert(p, format!("a=extmap:{id} {uri}"));
                    if r.chance(30) {
                        l.insert(p, format!("a=extmap:{id} {uri}"));
                    }
                }
                what = format!("extmap id {id:?} uri {uri:?}");
            }
            7 => {
                let forms = [
                    "a=crypto:1 AES_CM_128_HMAC_SHA1_80 inline:!!!!notbase64!!!!",
                    "a=crypto:1 AES_CM_128_HMAC_SHA1_80 inline:AAAA",
                    "a=crypto:1 AES_CM_128_HMAC_SHA1_80 inline:",
                    "a=crypto:1 AES_CM_128_HMAC_SHA1_80 inline:WVNfX19zZW1jdGwgKCkgewkyMjA7fQp9CnVubGVz|2^20|1:4",
                    "a=crypto:1 AES_CM_128_HMAC_SHA1_80 inline:WVNfX19zZW1jdGwgKCkgewkyMjA7fQp9CnVubGVz|2^4294967296|4294967296:256",
                    "a=crypto:1 AES_CM_128_HMAC_SHA1_80 inline:WVNfX19zZW1jdGwgKCkgewkyMjA7fQp9CnVubGVz|1:0",
                    "a=crypto:1 AES_CM_128_HMAC_SHA1_80 inline:WVNfX19zZW1jdGwgKCkgewkyMjA7fQp9CnVubGVz||",
                    "a=crypto:4294967296 AES_CM_128_HMAC_SHA1_80 inline:WVNfX19zZW1jdGwgKCkgewkyMjA7fQp9CnVubGVz",
                    "a=crypto:1 AEAD_AES_128_GCM inline:AAAAAAAAAAAAAAAAAAAAAAAAAAAAAAAAAAAAAA==",
                    "a=crypto:1 AEAD_AES_256_GCM inline:AAAA",
                    "a=crypto:1 UNKNOWN_SUITE inline:WVNfX19zZW1jdGwgKCkgewkyMjA7fQp9CnVubGVz",
                    "a=crypto:1",
                    "a=crypto:",
                    "a=crypto:1 AES_CM_128_HMAC_SHA1_32",
                    "a=crypto:1 AES_CM_128_HMAC_SHA1_80 inline:WVNfX19zZW1jdGwgKCkgewkyMjA7fQp9CnVubGVz;inline:AAAA UNENCRYPTED_SRTP KDR=255 WSH=0",
                    "a=crypto:-1 AES_CM_128_HMAC_SHA1_80 outline:xyz",
                ];
                let f = r.pick(&forms).to_string();
                let mut replaced = false;
                if r.chance(60) {
                    for x in l.iter_mut() {
                        if x.starts_with("a=crypto:") {
                            *x = f.clone();
                            replaced = true;
                        }
                    }
                }
                if !replaced {
                    let p = media_pos(&l, r);
                    l.insert(p, f.clone());
                }
                what = format!("crypto line {f:?}");
            }
            8 => {
                let forms = ["a=fingerprint:sha-256", "a=fingerprint:sha-256 ", "a=fingerprint:sha-256 AB", "a=fingerprint:sha-256 ZZ:ZZ", "a=fingerprint:sha-1 AB:CD:EF:01:23:45:67:89:AB:CD:EF:01:23:45:67:89:AB:CD:EF:01", "a=fingerprint: AB:CD", "a=fingerprint:", "a=fingerprint:sha-512 00", "a=fingerprint:SHA-256 ab:cd", "a=fingerprint:sha-256 A:B:C"];
                let mut f = r.pick(&forms).to_string();
                if r.chance(15) {
                    f = format!("a=fingerprint:sha-256 {}", "AB:".repeat(20000));
                }
                let mode = r.below(3);
                let idx: Vec<usize> = l.iter().enumerate().filter(|(_, x)| x.starts_with("a=fingerprint:")).map(|(i, _)| i).collect();
                match (mode, idx.is_empty()) {
                    (0, false) => {
                        for i in idx.iter() {
                            l[*i] = f.clone();
                        }
                    }
                    (1, false) => l.insert(idx[0], f.clone()),
                    _ => {
                        let p = media_pos(&l, r);
                        l.insert(p, f.clone());
                    }
                }
                what = format!("fingerprint form {:?} mode={mode}", &f[..f.len().min(60)]);
            }
            9 => {
                let forms = [
                    "a=rid:h send", "a=rid:h send pt=96", "a=rid:h send pt=256;max-width=4294967296", "a=rid: send", "a=rid:h", "a=rid:h sendrecv", "a=rid:h send pt=", "a=rid:hhhhhhhhhhhhhhhhhhhhhhhhhhhhhhhhhhhhhhhhhhhhhhhhhhhhhhhhhhhhhhhhhhhhhhhhhhhhhhhhhhhhhhhhhhhhhhhhhhhhhhhhhhhhhhhhhhhhhhhhhhhhhhhhhhhh recv",
                    "a=simulcast:send h;m;l", "a=simulcast:send h,~m;;l recv", "a=simulcast:", "a=simulcast:send", "a=simulcast:recv ~", "a=simulcast:send h;m;l recv h;m;l send x", "a=simulcast:send ;;;;;;;;;;;;;;;;", "a=simulcast:bogus h",
                ];
                let p = media_pos(&l, r);
                let cnt = 1 + r.below(4) as usize;
                let mut used = Vec::new();
                for _ in 0..cnt {
                    let f = r.pick(&forms).to_string();
                    l.insert(p.min(l.len()), f.clone());
                    used.push(f);
                }
                what = format!("simulcast/rid lines {used:?}");
            }
            10 => {
                let (c, w) = mutate_candidate("candidate:1 1 udp 2130706431 10.0.0.7 41000 typ host", r);
                let p = media_pos(&l, r);
                let c = if c.starts_with("candidate:") { format!("a={c}") } else { format!("a=candidate:{c}") };
                let reps = *r.pick(&[1usize, 1, 1, 40]);
                for _ in 0..reps {
                    l.insert(p.min(l.len()), c.clone());
                }
                what = format!("candidate line x{reps}: {w}");
            }
            11 => {
                let len = *r.pick(&[1000usize, 4096, 65535, 65536, 200_000]);
                let i = r.below(n as u64) as usize;
                let ch = *r.pick(&["A", "9", " ", ":", ";", "="]);
                match r.below(3) {
                    0 => l[i] = format!("{}{}", l[i], ch.repeat(len)),
                    1 => l.insert(i, format!("a=x-long:{}", ch.repeat(len))),
                    _ => {
                        let p = media_pos(&l, r);
                        l.insert(p, format!("a=fmtp:111 {}", "x=1;".repeat(len / 4)));
                    }
                }
                what = format!("long line len={len} char={ch:?} at {i}");
            }
            12 => {
                let i = r.below(n as u64) as usize;
                let c = *r.pick(&["\u{0}", "\r", "\n", "\n\n", "\r\r\n", "\t", "\u{feff}", "\u{202e}", "\u{7f}", "\u{ffff}", "\u{10ffff}"]);
                let pos = r.below(l[i].len() as u64 + 1) as usize;
                let pos = (0..=pos).rev().find(|p| l[i].is_char_boundary(*p)).unwrap_or(0);
                l[i].insert_str(pos, c);
                what = format!("control char {:?} in line {i} at {pos}", c.escape_unicode().to_string());
            }
            13 => {
                let forms = [
                    "m=audio 0 UDP/TLS/RTP/SAVPF 111", "m=audio 65535 UDP/TLS/RTP/SAVPF 111", "m=audio 65536 RTP/AVP 0", "m=audio -1 RTP/AVP 0", "m=audio 9/2 RTP/AVP 0", "m=audio 9/4294967296 RTP/AVP 0", "m=audio 9 RTP/AVP", "m=audio 9", "m=audio", "m=", "m=bogus 9 RTP/AVP 0", "m=video 9 BOGUS 96",
                    "m=application 9 UDP/DTLS/SCTP webrtc-datachannel", "m=application 9 DTLS/SCTP 5000", "m=application 0 UDP/DTLS/SCTP", "m=image 9 udptl t38", "m=image 9 UDPTL", "m=audio 9 RTP/AVP 0 8 101 13 18 4 9 3 97 98 99 100 102 103 104 105 106 107 108 109 110 112 113 114 115 116 117 118 119 120 121 122 123 124 125 126 127",
                ];
                let f = r.pick(&forms).to_string();
                let ms: Vec<usize> = l.iter().enumerate().filter(|(_, x)| x.starts_with("m=")).map(|(i, _)| i).collect();
                let mode = r.below(3);
                match (mode, ms.is_empty()) {
                    (0, false) => l[ms[r.below(ms.len() as u64) as usize]] = f.clone(),
                    (1, _) => {
                        // append extra sections (many)
                        for i in 0..*r.pick(&[1usize, 3, 40, 300]) {
                            l.push(f.clone());
                            l.push(format!("a=mid:x{i}"));
                        }
                    }
                    _ => l.insert(ms.first().copied().unwrap_or(0), f.clone()),
                }
                what = format!("m-line form {f:?} mode={mode}");
            }
            14 => {
                let forms = [
                    "a=ssrc:0 cname:x", "a=ssrc:4294967295 cname:x", "a=ssrc:4294967296 cname:x", "a=ssrc:-1 cname:x", "a=ssrc: cname:x", "a=ssrc:1", "a=ssrc:1 ", "a=ssrc:1 msid:", "a=ssrc:1 msid:a", "a=ssrc:abc cname:x", "a=ssrc-group:FID", "a=ssrc-group:FID 1", "a=ssrc-group:FID 1 2 3", "a=ssrc-group:FID 4294967296 1",
                    "a=ssrc-group:SIM 1 2 3", "a=ssrc-group: 1 2", "a=ssrc-group:FID x y", "a=msid:", "a=msid:- ", "a=msid:a b c d",
                ];
                let p = media_pos(&l, r);
                let cnt = 1 + r.below(3) as usize;
                let mut used = Vec::new();
                for _ in 0..cnt {
                    let f = r.pick(&forms).to_string();
                    l.insert(p.min(l.len()), f.clone());
                    used.push(f);
                }
                if r.chance(30) {
                    l.retain(|x| !x.starts_with("a=ssrc:1") || used.contains(x));
                }
                what = format!("ssrc lines {used:?}");
            }
            15 => {
                let forms = [
                    "c=IN IP4", "c=IN IP4 ", "c=IN IP4 999.1.1.1", "c=IN IP6 ::1", "c=IN IP6 fe80::1%eth0", "c=IN IP4 10.0.0.1/127/4294967296", "c=", "c=IN", "c=XX YY ZZ", "o=", "o=- x y IN IP4 z", "o=- 18446744073709551616 2 IN IP4 127.0.0.1", "t=", "t=4294967296 -1", "v=1", "v=", "s=", "b=AS:4294967296", "b=TIAS:", "b=:", "a=", "=", "x", "", "a", "a=:", "a=group:", "a=group:BUNDLE", "a=group:BUNDLE  ", "a=msid-semantic:",
                ];
                let f = r.pick(&forms).to_string();
                let key = f.chars().next().unwrap_or('z');
                let idx: Vec<usize> = l.iter().enumerate().filter(|(_, x)| x.starts_with(key) && x.as_bytes().get(1) == Some(&b'=')).map(|(i, _)| i).collect();
                if !idx.is_empty() && r.chance(70) {
                    l[idx[r.below(idx.len() as u64) as usize]] = f.clone();
                } else {
                    let i = r.below(n as u64 + 1) as usize;
                    l.insert(i.min(l.len()), f.clone());
                }
                what = format!("session-level form {f:?}");
            }
            16 => {
                let s = join(&l);
                let cut = r.below(s.len() as u64 + 1) as usize;
                let cut = (0..=cut).rev().find(|p| s.is_char_boundary(*p)).unwrap_or(0);
                return (s[..cut].to_string(), format!("truncate text at byte {cut} of {}", s.len()));
            }
            17 => {
                let forms = ["a=sctp-port:0", "a=sctp-port:65535", "a=sctp-port:65536", "a=sctp-port:", "a=sctp-port:-1", "a=max-message-size:0", "a=max-message-size:18446744073709551616", "a=max-message-size:", "a=sctpmap:5000 webrtc-datachannel 4294967296", "a=sctpmap:", "a=sctpmap:5000"];
                let f = r.pick(&forms).to_string();
                let mut replaced = false;
                let key = f.split(':').next().unwrap_or("").to_string();
                for x in l.iter_mut() {
                    if x.starts_with(&key) {
                        *x = f.clone();
                        replaced = true;
                    }
                }
                if !replaced {
                    l.push(f.clone());
                }
                what = format!("sctp line {f:?}");
            }
            18 => {
                let forms = ["a=ice-ufrag:", "a=ice-pwd:", "a=ice-ufrag:a", "a=ice-pwd:short", "a=ice-ufrag:\u{1F600}\u{1F600}", "a=ice-options:", "a=ice-options:trickle ice2 renomination", "a=ice-lite", "a=setup:", "a=setup:holdconn", "a=setup:bogus", "a=setup:active", "a=setup:passive", "a=setup:actpass", "a=end-of-candidates", "a=ice-pwd:0123456789012345678901234567890123456789012345678901234567890123456789012345678901234567890123456789012345678901234567890123456789012345678901234567890123456789012345678901234567890123456789012345678901234567890123456789012345678901234567890123456789"];
                let f = r.pick(&forms).to_string();
                let key = f.split(':').next().unwrap_or("").to_string();
                let mut replaced = false;
                if r.chance(70) {
                    for x in l.iter_mut() {
                        if x.starts_with(&key) {
                            *x = f.clone();
                            replaced = true;
                        }
                    }
                }
                if !replaced {
                    let p = media_pos(&l, r);
                    l.insert(p, f.clone());
                }
                what = format!("ice/setup form {f:?}");
            }
            _ => {
                let forms = [
                    "a=rtcp:0", "a=rtcp:65536", "a=rtcp:9 IN IP4", "a=rtcp:9 IN IP4 999.0.0.1", "a=rtcp:", "a=rtcp-mux-only", "a=rtcp-rsize", "a=rtcp-fb:", "a=rtcp-fb:* nack", "a=rtcp-fb:96", "a=rtcp-fb:96 ", "a=rtcp-fb:256 nack pli", "a=fmtp:97 apt=96", "a=fmtp:97 apt=256", "a=fmtp:97 apt=", "a=fmtp:97 apt=-1;rtx-time=4294967296", "a=fmtp:97 apt=97",
                    "a=rtpmap:97 rtx/90000", "a=fmtp:96 profile-level-id=;packetization-mode=256", "a=fmtp:", "a=fmtp:96", "a=fmtp:101 0-16,300", "a=ptime:0", "a=ptime:4294967296", "a=maxptime:-1", "a=sendrecv", "a=inactive", "a=sendonly", "a=recvonly", "a=bundle-only",
                ];
                let p = media_pos(&l, r);
                let cnt = 1 + r.below(3) as usize;
                let mut used = Vec::new();
                for _ in 0..cnt {
                    let f = r.pick(&forms).to_string();
                    l.insert(p.min(l.len()), f.clone());
                    used.push(f);
                }
                if used.iter().any(|u| u.contains("rtx")) || r.chance(30) {
                    // make the rtx payload type part of the m= line so that it is looked at
                    for x in l.iter_mut() {
                        if x.starts_with("m=video") {
                            x.push_str(" 97");
                        }
                    }
                }
                what = format!("rtcp/fmtp/rtx lines {used:?}");
            }
        }
        (join(&l), what)
    }

    pub fn mutate_candidate(genuine: &str, r: &mut Rng) -> (String, String) {
        let mut f: Vec<String> = genuine.split_whitespace().map(|s| s.to_string()).collect();
        while f.len() < 8 {
            f.push("x".into());
        }
        let what;
        match r.below(12) {
            0 => {
                f[5] = r.pick(&["0", "65535", "65536", "-1", "", "4294967296", "1e3"]).to_string();
                what = format!("port {:?}", f[5]);
            }
            1 => {
                f[3] = r.pick(&["0", "4294967295", "4294967296", "-1", "18446744073709551616", "abc"]).to_string();
                what = format!("priority {:?}", f[3]);
            }
            2 => {
                f[7] = r.pick(&["host", "srflx", "prflx", "relay", "bogus", "", "HOST"]).to_string();
                if r.chance(50) {
                    let rp: &str = *r.pick(&["0", "65536", "x"]);
                    f.extend(["raddr", "0.0.0.0", "rport", rp].iter().map(|s| s.to_string()));
                }
                what = format!("type {:?}", f[7]);
            }
            3 => {
                f[4] = r.pick(&["::1", "fe80::1", "fe80::1%eth0", "[::1]", "::ffff:10.0.0.2", "2001:db8::1:2:3:4:5:6:7", "999.1.1.1", "10.0.0", "", "localhost", "abc.local", "0.0.0.0", "255.255.255.255", ":"]).to_string();
                what = format!("address {:?}", f[4]);
            }
            4 => {
                f[2] = r.pick(&["tcp", "TCP", "udp", "UDP", "ssltcp", "", "dccp"]).to_string();
                let t = r.pick(&["active", "passive", "so", "bogus", ""]).to_string();
                match r.below(4) {
                    0 => f.extend(["tcptype".to_string(), t.clone()]),
                    1 => f.push("tcptype".to_string()),
                    2 => f.extend(["generation".to_string(), "0".into(), "tcptype".into()]),
                    _ => f.extend(["x".to_string(), "tcptype".into(), t.clone(), "y".into()]),
                }
                what = format!("transport {:?} tcptype {t:?}", f[2]);
            }
            5 => {
                f[1] = r.pick(&["0", "1", "2", "256", "65535", "65536", "-1", ""]).to_string();
                what = format!("component {:?}", f[1]);
            }
            6 => {
                let n = r.below(9) as usize;
                f.truncate(n);
                what = format!("only {n} fields");
            }
            7 => {
                f[0] = format!("candidate:{}", "f".repeat(*r.pick(&[0usize, 1, 32, 33, 4096])));
                what = "foundation length".into();
            }
            8 => {
                for _ in 0..*r.pick(&[1usize, 100, 5000]) {
                    f.push("ext".into());
                    f.push("val".into());
                }
                what = "many extension pairs".into();
            }
            9 => {
                f[6] = r.pick(&["typ", "TYP", "", "type"]).to_string();
                f.swap(6, 7);
                what = "typ keyword moved".into();
            }
            10 => {
                let i = r.below(f.len() as u64) as usize;
                f[i] = r.pick(BIG).to_string();
                what = format!("field {i} = {:?}", f[i]);
            }
            _ => {
                let s = f.join(" ");
                let s = format!("{}{}", s, r.pick(&["\u{0}", "\r\n", "\t\t", " \u{feff}"]));
                return (s, "trailing control characters".into());
            }
        }
        (f.join(" "), what)
    }
}

/// Feed one signaling text through the API exactly as an application would. Returns (outcome tokens, accepted by the connected pair).
async fn apply_text(a: &crate::rig_pc::Peer, b: &crate::rig_pc::Peer, k: &crate::rig_pc::PcKnobs, plan: &Plan, nfresh: u32, text: &str, what: i64, target: i64) -> (String, bool) {
    use crate::rig_pc::{make_config, Peer};
    use rustrtc::{SdpType, SessionDescription, SignalingState};
    let fresh = |n: u32| {
        let mut cfg = make_config(k, 1, plan);
        cfg.bind_ip = Some(format!("10.0.0.{}", 20 + n % 200));
        Peer::with_config("F", cfg)
    };
    let mut outcome = String::new();
    let mut accepted = false;
    if what == 2 {
        match rustrtc::transports::ice::IceCandidate::from_sdp(text) {
            Err(_) => outcome.push_str("from_sdp=Err"),
            Ok(c) => {
                outcome.push_str("from_sdp=Ok");
                // (TCP candidates would make rustrtc open real TCP sockets, which the simulation has no seam for)
                if c.transport == "udp" {
                    if target == 1 {
                        outcome.push_str(if b.pc.add_ice_candidate(c).is_ok() { " add=Ok" } else { " add=Err" });
                    } else {
                        let f = fresh(nfresh);
                        outcome.push_str(if f.pc.add_ice_candidate(c).is_ok() { " add=Ok" } else { " add=Err" });
                        f.pc.close();
                    }
                }
            }
        }
        return (outcome, false);
    }
    let ty = if what == 0 { SdpType::Offer } else { SdpType::Answer };
    match SessionDescription::parse(ty, text) {
        Err(_) => outcome.push_str("parse=Err"),
        Ok(d) => {
            outcome.push_str("parse=Ok");
            // re-serialisation of what was parsed (an operation on parsed input)
            let _ = d.to_sdp_string();
            if target == 1 {
                // an answer is applied to the side that has an offer pending: A makes one first (unless one is pending)
                let pc = if what == 0 { b.pc.clone() } else { a.pc.clone() };
                if what == 1 && a.pc.signaling_state() == SignalingState::Stable {
                    if let Ok(o) = a.pc.create_offer().await {
                        let _ = a.pc.set_local_description(o);
                    }
                }
                match pc.set_remote_description(d).await {
                    Ok(()) => {
                        outcome.push_str(" set_remote=Ok");
                        accepted = true;
                        if what == 0 {
                            match pc.create_answer().await {
                                Ok(ans) => outcome.push_str(if pc.set_local_description(ans).is_ok() { " answer=Ok" } else { " set_local=Err" }),
                                Err(_) => outcome.push_str(" create_answer=Err"),
                            }
                        }
                    }
                    Err(_) => outcome.push_str(" set_remote=Err"),
                }
            } else if what == 1 {
                // a fresh connection needs a local offer before an answer can be applied
                let mut f = fresh(nfresh);
                if k.has_dc() {
                    f.add_dc(true);
                }
                f.add_media(k);
                if let Ok(o) = f.pc.create_offer().await {
                    let _ = f.pc.set_local_description(o);
                }
                outcome.push_str(if f.pc.set_remote_description(d).await.is_ok() { " set_remote=Ok" } else { " set_remote=Err" });
                f.pc.close();
            } else {
                let mut f = fresh(nfresh);
                match f.pc.set_remote_description(d).await {
                    Ok(()) => {
                        outcome.push_str(" set_remote=Ok");
                        // the application adds its own tracks / channel to the offered transceivers (mid allocation)
                        f.add_media(k);
                        if k.has_dc() {
                            f.add_dc(true);
                        }
                        match f.pc.create_answer().await {
                            Ok(ans) => {
                                let _ = ans.to_sdp_string();
                                outcome.push_str(if f.pc.set_local_description(ans).is_ok() { " answer=Ok" } else { " set_local=Err" })
                            }
                            Err(_) => outcome.push_str(" create_answer=Err"),
                        }
                    }
                    Err(_) => outcome.push_str(" set_remote=Err"),
                }
                f.pc.close();
            }
        }
    }
    (outcome, accepted)
}

async fn run_sdp(ctx: &Ctx) {
    use crate::rig_pc::{negotiate, PcKnobs, Peer};
    use rustrtc::transports::sctp::DataChannelEvent;
    use rustrtc::verif_hooks as vh;
    use rustrtc::{SdpType, SessionDescription};
    use sdprig::*;
    use std::sync::atomic::{AtomicU32, Ordering};
    let plan = &ctx.plan;
    let mut kp = plan.clone();
    let mode = plan.knob("mode", 0).clamp(0, 2);
    kp.knobs.insert("mode".into(), mode);
    kp.knobs.insert("mix".into(), if mode == 0 { 4 } else { 2 });
    let k = PcKnobs::from_plan(&kp);
    ctx.net.install_binder();
    let mut a = Peer::new(ctx, &k, 0);
    let mut b = Peer::new(ctx, &k, 1);
    if k.has_dc() {
        a.add_dc(true);
        b.add_dc(true);
    }
    a.add_media(&k);
    let (offer_s, answer_s) = match negotiate(&mut a, &mut b, &k, ctx).await {
        Ok(x) => x,
        Err(e) => {
            ctx.violate("HARNESS.negotiate", format!("hostile rig 3: genuine negotiation failed: {e}"));
            return;
        }
    };
    let connected = tokio::time::timeout(Duration::from_secs(60), async { a.pc.wait_for_connected().await.is_ok() && b.pc.wait_for_connected().await.is_ok() }).await.unwrap_or(false);
    if !connected {
        ctx.violate("HARNESS.negotiate", "hostile rig 3: the genuine pair did not connect".into());
        return;
    }
    let cand: String = offer_s.lines().find(|l| l.starts_with("a=candidate:")).map(|l| l[2..].trim().to_string()).unwrap_or_else(|| "candidate:1 1 udp 2130706431 10.0.0.1 40000 typ host".into());
    // echo on B's data channel
    let pong = Arc::new(AtomicU32::new(0));
    let mut helpers = Vec::new();
    if let (Some(da), Some(db)) = (a.dc.clone(), b.dc.clone()) {
        let pcb = b.pc.clone();
        helpers.push(tokio::spawn(vh::wrap_task(async move {
            while let Some(ev) = db.recv().await {
                if let DataChannelEvent::Message(m) = ev {
                    if m.starts_with(b"PING") {
                        let _ = pcb.send_data(db.id, b"PONG").await;
                    }
                }
            }
        })));
        let pg = pong.clone();
        helpers.push(tokio::spawn(vh::wrap_task(async move {
            while let Some(ev) = da.recv().await {
                if let DataChannelEvent::Message(m) = ev {
                    if m.starts_with(b"PONG") {
                        pg.fetch_add(1, Ordering::SeqCst);
                    }
                }
            }
        })));
    }
    // allocation baseline: what the genuine text costs through exactly the same call sequence, per (what, target)
    let mut base = [[0u64; 2]; 3];
    let mut nfresh = 0u32;
    for what in 0..3i64 {
        for target in 0..2i64 {
            let text = match what {
                0 => offer_s.clone(),
                1 => answer_s.clone(),
                _ => cand.clone(),
            };
            let a0 = crate::alloc_count::allocated();
            let (out, _) = apply_text(&a, &b, &k, plan, nfresh, &text, what, target).await;
            base[what as usize][target as usize] = crate::alloc_count::allocated() - a0;
            nfresh += 1;
            ctx.ev(&format!("baseline what={what} target={target} {out}"), "");
            tokio::time::sleep(Duration::from_millis(5)).await;
        }
    }
    tokio::time::sleep(Duration::from_millis(50)).await;
    let mut delivered = 0u64;
    let mut accepted_on_connected = 0u64;
    let ops: Vec<Op> = plan.ops.iter().filter(|o| o.kind == "sdp_mut").cloned().collect();
    for op in ops.iter() {
        let (target, what, kind, seed, count) = (op.arg(0) & 1, op.arg(1).clamp(0, 2), op.arg(2), op.arg(3) as u64, op.arg(4).clamp(1, 32));
        let mut r = Rng::new(mix(seed, 0x736470));
        for _ in 0..count {
            let (text, desc, class) = match what {
                0 => {
                    let (t, d) = mutate_sdp(&offer_s, kind, &mut r);
                    (t, d, "sdp.offer")
                }
                1 => {
                    let (t, d) = mutate_sdp(&answer_s, kind, &mut r);
                    (t, d, "sdp.answer")
                }
                _ => {
                    let (t, d) = mutate_candidate(&cand, &mut r);
                    (t, d, "sdp.candidate")
                }
            };
            let fam = if what == 2 { "candidate".to_string() } else { SDP_KINDS[kind.rem_euclid(SDP_KINDS.len() as i64) as usize].to_string() };
            let shown: String = text.chars().take(120).collect();
            let note = format!("class={class} target={} mutation={fam} [{desc}] len={} text-start={shown:?}", if target == 0 { "fresh" } else { "connected" }, text.len());
            let note: String = note.chars().take(700).collect();
            crate::sim::set_last_input(&note);
            ctx.ev(&format!("HOSTILE {class} {fam} target{target}"), &note);
            {
                let mut sh = ctx.sh.lock().unwrap();
                sh.stat("hostile.total", 1);
                sh.stat(&format!("hostile.class.{class}"), 1);
                sh.stat(&format!("hostile.family.sdp.{fam}"), 1);
                sh.stat(&format!("hostile.target.{}", if target == 0 { "fresh" } else { "connected" }), 1);
                sh.stat("hostile.bytes", text.len() as u64);
            }
            delivered += 1;
            let panics0 = crate::sim::panic_count();
            let accepted_before = accepted_on_connected;
            let a0 = crate::alloc_count::allocated();
            let w0 = std::time::Instant::now();
            let mut outcome = String::from("(call did not return)");
            let fut = apply_text(&a, &b, &k, plan, nfresh, &text, what, target);
            let timed_out = match tokio::time::timeout(Duration::from_secs(60), fut).await {
                Ok((o, acc)) => {
                    outcome = o;
                    if acc {
                        accepted_on_connected += 1;
                    }
                    false
                }
                Err(_) => true,
            };
            nfresh += 1;
            let wall = w0.elapsed();
            let used = crate::alloc_count::allocated() - a0;
            ctx.ev(&format!("result {}", outcome.split(' ').map(|s| s.to_string()).collect::<Vec<_>>().join(" ")), "");
            for part in outcome.split(' ').filter(|s| !s.is_empty()) {
                ctx.stat(&format!("probe.sdp.{part}"), 1);
            }
            if timed_out {
                ctx.violate("C07.hang", format!("a signaling API call fed with hostile text did not return within 60 s of virtual time (progress so far: {outcome}); input: {note}"));
            }
            if crate::sim::panic_count() == panics0 && over_budget(wall) {
                ctx.violate("C07.hang", format!("a signaling API call fed with hostile text kept the run busy for more than {} s of wall-clock time; input: {note}", SETTLE_WALL_BUDGET.as_secs()));
            }
            // every m= / a=rid / a=simulcast / a=group line may legitimately create a transport or a track as large as the
            // genuine ones: the allowance is 64*len + 64 KiB above U x (cost of the genuine description, same calls)
            let units = 1 + text.lines().filter(|l| l.starts_with("m=") || l.starts_with("a=rid") || l.starts_with("a=simulcast") || l.starts_with("a=group")).count() as u64;
            // (on the connected pair a changed section is rebuilt from scratch: the share is what the fresh connection paid)
            let limit = alloc_limit(text.len()) + units * base[what as usize][0].max(base[what as usize][1]);
            if crate::sim::panic_count() == panics0 {
                ctx.sh.lock().unwrap().stat_max("alloc.max_per_sdp_input", used);
                if target == 1 && accepted_before > 0 {
                    // the connected pair is no longer in the state the baseline was measured in
                    if used > limit {
                        ctx.stat("escape.sdp_alloc_after_accepted_mutant", 1);
                    }
                } else if used > limit {
                    ctx.violate("C07.alloc", format!("more than 64*len + 64 KiB above {units} x the cost of the genuine description (one share per m= / a=rid / a=simulcast / a=group line) were allocated while one hostile signaling text of {} bytes was processed ({outcome}); input: {note}", text.len()));
                }
            }
            tokio::time::sleep(Duration::from_millis(5)).await;
        }
    }
    // ---- C07.alive: a genuine renegotiation (and the data channel) still work
    let mut alive_judged = false;
    if crate::sim::panic_count() > 0 {
        ctx.stat("escape.alive_not_judged_after_panic", 1);
    } else {
        // bring both sides back to stable if a hostile answer left A with a pending offer
        let reneg: Result<(), String> = async {
            let s = if a.pc.signaling_state() == rustrtc::SignalingState::HaveLocalOffer {
                // a hostile answer was refused: the genuine peer now answers the offer that is still pending
                a.pc.local_description().map(|d| d.to_sdp_string()).ok_or("A has a pending offer but no local description")?
            } else {
                let offer = a.pc.create_offer().await.map_err(|e| format!("A create_offer: {e}"))?;
                let s = offer.to_sdp_string();
                a.pc.set_local_description(offer).map_err(|e| format!("A set_local(offer): {e}"))?;
                s
            };
            let rx = SessionDescription::parse(SdpType::Offer, &s).map_err(|e| format!("genuine offer does not parse: {e}"))?;
            b.pc.set_remote_description(rx).await.map_err(|e| format!("B set_remote(offer): {e}"))?;
            let ans = b.pc.create_answer().await.map_err(|e| format!("B create_answer: {e}"))?;
            let s2 = ans.to_sdp_string();
            b.pc.set_local_description(ans).map_err(|e| format!("B set_local(answer): {e}"))?;
            let rx2 = SessionDescription::parse(SdpType::Answer, &s2).map_err(|e| format!("genuine answer does not parse: {e}"))?;
            a.pc.set_remote_description(rx2).await.map_err(|e| format!("A set_remote(answer): {e}"))?;
            Ok(())
        }
        .await;
        let mut dc_ok = true;
        if reneg.is_ok() && k.has_dc() {
            let p0 = pong.load(Ordering::SeqCst);
            let _ = a.pc.send_data(a.dc.as_ref().unwrap().id, b"PING").await;
            let t_end = ctx.now_ms() + 30_000;
            while pong.load(Ordering::SeqCst) == p0 && ctx.now_ms() < t_end {
                tokio::time::sleep(Duration::from_millis(20)).await;
            }
            dc_ok = pong.load(Ordering::SeqCst) > p0;
        }
        if accepted_on_connected > 0 {
            // a description the connected side ACCEPTED may legitimately have changed its transports, credentials or m-lines
            ctx.stat("escape.alive_not_judged_mutant_was_accepted", 1);
            if reneg.is_err() || !dc_ok {
                ctx.stat("probe.renegotiation_failed_after_accepted_mutant", 1);
            }
        } else {
            alive_judged = true;
            if let Err(e) = &reneg {
                ctx.violate("C07.alive", format!("after {delivered} hostile signaling inputs, none of which was accepted by the connected pair, a genuine renegotiation fails: {e}"));
            } else if !dc_ok {
                ctx.violate("C07.alive", format!("after {delivered} hostile signaling inputs, none of which was accepted by the connected pair, the data channel no longer carries a round trip (A: {:?}, B: {:?})", *a.pc.subscribe_peer_state().borrow(), *b.pc.subscribe_peer_state().borrow()));
            }
        }
    }
    if alive_judged {
        ctx.stat("alive_judged", 1);
    }
    if delivered > 0 {
        ctx.stat("nontrivial", 1);
    }
    for h in helpers {
        h.abort();
    }
    a.pc.close();
    b.pc.close();
    drop(a);
    drop(b);
    tokio::time::sleep(Duration::from_millis(100)).await;
    let now = ctx.now_ms();
    ctx.stat("virt_ms", now);
}
