//! Scenario `srtp_gate_pc` (C14 at PeerConnection level): the SRTP gate as a real `PeerConnection`
//! builds and keys it (`start_dtls`: the `srtp_required` flag per TransportMode, the flush of ICE's
//! early-packet buffer relative to key installation by `setup_sdes()` / the DTLS-SRTP export, listeners
//! registered before keys, renegotiation, close).
//!
//! Rig: two real PeerConnections A (10.0.0.1) and B (10.0.0.2) in WebRtc (DTLS-SRTP) or Srtp (SDES) mode
//! with audio, video or both, a signaling channel with delay (`sig_delay_ms`), an attacker M (10.0.0.66,
//! or the peer's spoofed media address) and - knob `bridge` - a plain-RTP PeerConnection C (10.0.0.3) that
//! the victim B is bridged to (`bridge_rtp_with_rewrite_to`), whose wire is the "bridged peer".
//!
//! Timeline = phases; every attacker / application op is (phase, delta): it fires delta ms after the phase
//! was entered, from its own task (so it races the negotiation / start-up code):
//!   0 offer set locally by the offerer, in transit        5 both Connected, media flowing
//!   1 answerer applied the offer and created its answer   6 renegotiation (second offer/answer round)
//!   2 answerer set its answer locally, answer in transit  7 steady state (periodic RTCP)
//!   3 offerer applies the answer (ICE checks / SDES start)8 first close() (BYE)
//!   4 first DTLS handshake datagram on the wire           9 both closed
//!
//! Oracles:
//!   C14.deliver  nothing the attacker put on the wire (cleartext RTP/RTCP with recognisable marker payloads /
//!                marker SSRCs, "protected-looking" packets with a random tag, replays of genuine protected
//!                packets with one flipped bit) reaches a receiver track, a receiver interceptor, an RtpObserver
//!                (`on_ingress`: every packet must equal a packet the peer really emitted under the session
//!                keys), a sender's RTCP interceptor / `subscribe_rtcp`, or the wire of the bridged peer.
//!   C14.tx       every RTP/RTCP-classified datagram (first byte 128..191) an endpoint emits opens under the
//!                independent SRTP implementation `webrtc-srtp` with that endpoint's session keys (SDES: the
//!                a=crypto keys of its own descriptions; DTLS-SRTP: the exporter of its DtlsTransport), none
//!                is emitted before keys exist, and no datagram of any class contains an application payload
//!                (samples, raw sends) in clear.
use super::Tier;
use crate::monitor::{DtlsRecord, StdMonitor, WireOracle};
use crate::net::{host_name, Shared, SharedRef, SimNet};
use crate::plan::*;
use crate::rig_pc::{make_config, opus, vp8, PcKnobs};
use crate::sim::Ctx;
use async_trait::async_trait;
use bytes::Bytes;
use rustrtc::media::frame::{AudioFrame, MediaSample, VideoFrame};
use rustrtc::media::track::{sample_track, SampleStreamSource};
use rustrtc::media::MediaStreamTrack;
use rustrtc::peer_connection::{RtpObserver, RtpReceiverInterceptor, RtpSenderInterceptor};
use rustrtc::rtp::{marshal_rtcp_packets, GenericNack, Goodbye, PictureLossIndication, ReceiverReport, ReportBlock, RtcpPacket, RtpHeader, RtpPacket, SenderReport};
use rustrtc::transports::dtls::DtlsState;
use rustrtc::transports::rtp::{RtpRewriteBridgeParams, RtpTransport};
use rustrtc::verif_hooks as vh;
use rustrtc::{MediaKind, PeerConnection, SdpType, SessionDescription};
use std::collections::BTreeMap;
use std::net::{IpAddr, SocketAddr};
use std::sync::{Arc, Mutex};
use std::time::Duration;
use tokio::sync::watch;
use tokio::task::JoinHandle;
use webrtc_srtp::context::Context as RefCtx;
use webrtc_srtp::protection_profile::ProtectionProfile as RefProfile;

pub const PH_OFFER_SENT: i64 = 0;
pub const PH_ANSWER_CREATED: i64 = 1;
pub const PH_ANSWER_SENT: i64 = 2;
pub const PH_START: i64 = 3;
pub const PH_DTLS: i64 = 4;
pub const PH_CONNECTED: i64 = 5;
pub const PH_RENEG: i64 = 6;
pub const PH_STEADY: i64 = 7;
pub const PH_CLOSING: i64 = 8;
pub const PH_CLOSED: i64 = 9;
const NPH: i64 = 10;
const PHASE_NAMES: [&str; 10] = ["offer_sent", "answer_created", "answer_sent", "start", "dtls", "connected", "reneg", "steady", "closing", "closed"];
const PK_NAMES: [&str; 6] = ["clr_rtp", "clr_rtcp", "bad_rtp", "bad_rtcp", "flip_rtp", "flip_rtcp"];
const SIDES: [&str; 2] = ["A", "B"];
/// SSRC range only the attacker uses (sender_ssrc of forged RTCP, SSRC of forged RTP when the real one is unknown)
const ATK_SSRC: u32 = 0xC14A_0000;

// ---------------------------------------------------------------------------
// small helpers: payloads, SDP reading (the harness' own, text based), base64
// ---------------------------------------------------------------------------
const GEN_MAGIC: &[u8; 4] = b"C14G";
const ATK_MAGIC: &[u8; 4] = b"C14X";

/// payload of an application sample / raw packet: kind 0 audio, 1 video, 2 raw send
fn gen_payload(seed: u64, side: usize, kind: u8, i: u32) -> Vec<u8> {
    let mut v = GEN_MAGIC.to_vec();
    v.push(side as u8);
    v.push(kind);
    v.extend_from_slice(&i.to_be_bytes());
    let mut tail = vec![0u8; 16 + (i as usize % 5) * 11];
    Rng::new(mix(mix(seed, 0x67656e), (side as u64) << 40 | (kind as u64) << 32 | i as u64)).fill(&mut tail);
    v.extend_from_slice(&tail);
    v
}
fn atk_payload(seed: u64, op: usize, j: usize) -> Vec<u8> {
    let mut v = ATK_MAGIC.to_vec();
    v.extend_from_slice(&[(op >> 8) as u8, op as u8, j as u8, 0]);
    let mut tail = [0u8; 16];
    Rng::new(mix(mix(seed, 0x61746b), (op as u64) << 8 | j as u64)).fill(&mut tail);
    v.extend_from_slice(&tail);
    v
}
fn find(hay: &[u8], needle: &[u8]) -> Vec<usize> {
    if hay.len() < needle.len() {
        return Vec::new();
    }
    (0..=hay.len() - needle.len()).filter(|i| &hay[*i..*i + needle.len()] == needle).collect()
}
fn hex(b: &[u8]) -> String {
    b.iter().take(28).map(|x| format!("{x:02x}")).collect::<String>()
}
fn b64(s: &str) -> Option<Vec<u8>> {
    let mut out = Vec::new();
    let (mut acc, mut bits) = (0u32, 0u32);
    for c in s.bytes() {
        let v = match c {
            b'A'..=b'Z' => c - b'A',
            b'a'..=b'z' => c - b'a' + 26,
            b'0'..=b'9' => c - b'0' + 52,
            b'+' => 62,
            b'/' => 63,
            b'=' => break,
            _ => return None,
        } as u32;
        acc = (acc << 6) | v;
        bits += 6;
        if bits >= 8 {
            bits -= 8;
            out.push((acc >> bits) as u8);
            acc &= (1 << bits) - 1;
        }
    }
    Some(out)
}
/// lines of the m-sections of `kind` ("audio" / "video"); kind "" = every line
fn section_lines<'a>(sdp: &'a str, kind: &str) -> Vec<&'a str> {
    let mut out = Vec::new();
    let mut cur = String::new();
    for l in sdp.lines() {
        let l = l.trim();
        if let Some(m) = l.strip_prefix("m=") {
            cur = m.split_whitespace().next().unwrap_or("").to_string();
        }
        if kind.is_empty() || cur == kind {
            out.push(l);
        }
    }
    out
}
fn sdp_ssrc(sdp: &str, kind: &str) -> Option<u32> {
    section_lines(sdp, kind).iter().find_map(|l| l.strip_prefix("a=ssrc:").and_then(|r| r.split_whitespace().next()).and_then(|n| n.parse().ok()))
}
fn sdp_pt(sdp: &str, kind: &str) -> Option<u8> {
    section_lines(sdp, kind).iter().find_map(|l| l.strip_prefix("m=").and_then(|m| m.split_whitespace().nth(3)).and_then(|n| n.parse().ok()))
}
fn sdp_mid(sdp: &str, kind: &str) -> Option<String> {
    section_lines(sdp, kind).iter().find_map(|l| l.strip_prefix("a=mid:").map(|m| m.trim().to_string()))
}
fn sdp_mid_ext(sdp: &str) -> Option<u8> {
    sdp.lines().find_map(|l| {
        let r = l.trim().strip_prefix("a=extmap:")?;
        if !r.contains("urn:ietf:params:rtp-hdrext:sdes:mid") {
            return None;
        }
        r.split(|c: char| c == ' ' || c == '/').next()?.parse().ok()
    })
}
/// (key, salt) of every a=crypto line with an AES_CM_128_HMAC_SHA1_80 / _32 / AEAD_AES_128_GCM suite
fn sdp_crypto(sdp: &str) -> Vec<(i64, Vec<u8>, Vec<u8>)> {
    let mut out = Vec::new();
    for l in sdp.lines() {
        let Some(r) = l.trim().strip_prefix("a=crypto:") else { continue };
        let f: Vec<&str> = r.split_whitespace().collect();
        if f.len() < 3 {
            continue;
        }
        let (prof, salt_len) = match f[1] {
            "AES_CM_128_HMAC_SHA1_80" => (0, 14),
            "AES_CM_128_HMAC_SHA1_32" => (1, 14),
            "AEAD_AES_128_GCM" => (2, 12),
            _ => continue,
        };
        let Some(k) = f[2].strip_prefix("inline:") else { continue };
        let Some(ks) = b64(k.split('|').next().unwrap_or("")) else { continue };
        if ks.len() >= 16 + salt_len {
            out.push((prof, ks[..16].to_vec(), ks[16..16 + salt_len].to_vec()));
        }
    }
    out
}
/// transport addresses a description announces: ICE candidates, else c= / m= port (copied from hostile_pc.rs)
fn addrs_of(sdp: &str) -> Vec<SocketAddr> {
    let mut out: Vec<SocketAddr> = Vec::new();
    for l in sdp.lines() {
        if let Some(c) = l.trim().strip_prefix("a=candidate:") {
            let f: Vec<&str> = c.split_whitespace().collect();
            if f.len() >= 6 && f[2].eq_ignore_ascii_case("udp") {
                if let Ok(a) = format!("{}:{}", f[4], f[5]).parse() {
                    out.push(a);
                }
            }
        }
    }
    if out.is_empty() {
        let mut sess_ip: Option<String> = None;
        let mut pending: Vec<u16> = Vec::new();
        let mut in_media = false;
        for l in sdp.lines() {
            let l = l.trim();
            if let Some(c) = l.strip_prefix("c=IN IP4 ") {
                let ip = c.trim().to_string();
                if !in_media {
                    sess_ip = Some(ip.clone());
                }
                for p in pending.drain(..) {
                    if let Ok(a) = format!("{ip}:{p}").parse() {
                        out.push(a);
                    }
                }
            }
            if let Some(m) = l.strip_prefix("m=") {
                in_media = true;
                // a section without its own c= line uses the session-level address
                if let Some(ip) = sess_ip.as_ref() {
                    for p in pending.drain(..) {
                        if let Ok(a) = format!("{ip}:{p}").parse() {
                            out.push(a);
                        }
                    }
                }
                if let Some(p) = m.split_whitespace().nth(1).and_then(|p| p.parse::<u16>().ok()) {
                    if p != 0 && p != 9 {
                        pending.push(p);
                    }
                }
            }
        }
        if let Some(ip) = sess_ip.as_ref() {
            for p in pending.drain(..) {
                if let Ok(a) = format!("{ip}:{p}").parse() {
                    out.push(a);
                }
            }
        }
    }
    out.sort();
    out.dedup();
    out
}
fn rtp_payload_off(d: &[u8]) -> Option<usize> {
    if d.len() < 12 || d[0] >> 6 != 2 {
        return None;
    }
    let mut off = 12 + 4 * (d[0] & 0x0f) as usize;
    if d[0] & 0x10 != 0 {
        if d.len() < off + 4 {
            return None;
        }
        off += 4 + 4 * u16::from_be_bytes([d[off + 2], d[off + 3]]) as usize;
    }
    if off > d.len() {
        return None;
    }
    Some(off)
}
fn rtp_payload(d: &[u8]) -> Option<&[u8]> {
    let off = rtp_payload_off(d)?;
    let mut end = d.len();
    if d[0] & 0x20 != 0 {
        let p = *d.last()? as usize;
        if p == 0 || p > end - off {
            return None;
        }
        end -= p;
    }
    Some(&d[off..end])
}
fn rtcp_kinds(p: &[u8]) -> Vec<&'static str> {
    let mut out = Vec::new();
    let mut off = 0;
    while off + 4 <= p.len() {
        let fmt = p[off] & 0x1f;
        out.push(match (p[off + 1], fmt) {
            (200, _) => "sr",
            (201, _) => "rr",
            (202, _) => "sdes",
            (203, _) => "bye",
            (205, 1) => "nack",
            (205, _) => "rtpfb",
            (206, 1) => "pli",
            (206, 4) => "fir",
            (206, _) => "psfb",
            _ => "other",
        });
        off += 4 * (u16::from_be_bytes([p[off + 2], p[off + 3]]) as usize + 1);
    }
    out
}
fn rtcp_ssrcs(p: &RtcpPacket, out: &mut Vec<u32>) {
    match p {
        RtcpPacket::SenderReport(x) => out.push(x.sender_ssrc),
        RtcpPacket::ReceiverReport(x) => out.push(x.sender_ssrc),
        RtcpPacket::SourceDescription(x) => out.extend(x.chunks.iter().map(|c| c.ssrc)),
        RtcpPacket::Goodbye(x) => out.extend(x.sources.iter().copied()),
        RtcpPacket::PictureLossIndication(x) => out.extend([x.sender_ssrc, x.media_ssrc]),
        RtcpPacket::FullIntraRequest(x) => out.push(x.sender_ssrc),
        RtcpPacket::GenericNack(x) => out.extend([x.sender_ssrc, x.media_ssrc]),
        RtcpPacket::RemoteBitrateEstimate(x) => out.push(x.sender_ssrc),
        RtcpPacket::TransportWideCc(x) => out.extend([x.sender_ssrc, x.media_ssrc]),
    }
}

// ---------------------------------------------------------------------------
// reference SRTP (webrtc-srtp), as in srtpgate.rs but with one persistent context per key so that the
// rollover counter follows the sender (rustrtc picks random initial sequence numbers)
// ---------------------------------------------------------------------------
fn ref_profile(p: i64) -> RefProfile {
    match p {
        1 => RefProfile::Aes128CmHmacSha1_32,
        2 => RefProfile::AeadAes128Gcm,
        _ => RefProfile::Aes128CmHmacSha1_80,
    }
}
struct Cand {
    label: String,
    prof: i64,
    key: Vec<u8>,
    salt: Vec<u8>,
    ctx: Option<RefCtx>,
}
impl Cand {
    fn new(label: String, prof: i64, key: Vec<u8>, salt: Vec<u8>) -> Cand {
        let ctx = RefCtx::new(&key, &salt, ref_profile(prof), None, None).ok();
        Cand { label, prof, key, salt, ctx }
    }
    fn tag_len(&self) -> usize {
        [10, 4, 16][self.prof.clamp(0, 2) as usize]
    }
    fn open_rtp(&mut self, d: &[u8]) -> Option<Vec<u8>> {
        if d.len() < 12 + self.tag_len() || d[0] >> 6 != 2 {
            return None;
        }
        if let Some(p) = self.ctx.as_mut().and_then(|c| c.decrypt_rtp(d).ok()) {
            return Some(p.to_vec());
        }
        // a retransmission of an old sequence number can confuse the reference's rollover estimate
        RefCtx::new(&self.key, &self.salt, ref_profile(self.prof), None, None).ok()?.decrypt_rtp(d).ok().map(|b| b.to_vec())
    }
    fn open_rtcp(&mut self, d: &[u8]) -> Option<Vec<u8>> {
        if d[0] >> 6 != 2 {
            return None;
        }
        if self.prof == 2 {
            if d.len() < 8 + 16 + 4 {
                return None;
            }
        } else {
            if d.len() < 8 + 4 + 10 {
                return None;
            }
            // the reference returns E=0 packets without checking the tag: never count those as authenticated
            if d[d.len() - 14] & 0x80 == 0 {
                return None;
            }
        }
        self.ctx.as_mut()?.decrypt_rtcp(d).ok().map(|b| b.to_vec())
    }
}

// ---------------------------------------------------------------------------
// oracle state
// ---------------------------------------------------------------------------
#[derive(Clone, Debug)]
struct Atk {
    op: usize,
    phase: i64,
    pk: usize,
    victim: usize,
    spoof: bool,
    /// the packet is a replay of a genuine protected datagram with one bit flipped (only possible once the peer has sent one)
    replayed: bool,
}
impl Atk {
    fn describe(&self) -> String {
        format!("attacker op #{} ({}{} towards {} in phase {}={}, source {})", self.op, PK_NAMES[self.pk], if self.pk >= 4 && !self.replayed { " [nothing to replay yet: sent as cleartext]" } else { "" }, SIDES[self.victim], self.phase, PHASE_NAMES[self.phase.clamp(0, 9) as usize], if self.spoof { "spoofed peer address" } else { "third host" })
    }
}
#[derive(Default)]
struct Ep {
    /// latest local description as text (what the attacker can read off the signaling channel)
    sdp: Option<String>,
    addrs: Vec<SocketAddr>,
    have_local: bool,
    have_remote: bool,
    cands: Vec<Cand>,
    dtls_ptr: usize,
    /// RTP packets this endpoint emitted and the reference opened: (ssrc, seq) -> (pt|marker byte, timestamp, payload)
    emitted: BTreeMap<(u32, u16), (u8, u32, Vec<u8>)>,
    /// last genuine protected datagrams (for the replay-with-a-flipped-bit attack): datagram, payload offset+plain payload
    last_rtp: Option<(Vec<u8>, Option<(usize, Vec<u8>)>)>,
    last_rtcp: Option<Vec<u8>>,
    closed: bool,
}
struct St {
    enabled: bool,
    mode: i64,
    ep: [Ep; 2],
    pcs: Vec<PeerConnection>,
    /// full payloads of RTP packets the attacker sent (cleartext markers, and genuine payloads with the flipped bit)
    atk_payloads: BTreeMap<Vec<u8>, Atk>,
    /// payloads the applications submitted: payload -> (side, kind, index); `gen_heads`: first 10 bytes -> payload
    gen_payloads: BTreeMap<Vec<u8>, (usize, u8, u32)>,
    gen_heads: BTreeMap<Vec<u8>, Vec<u8>>,
    atk_by_ssrc: BTreeMap<u32, Atk>,
    phase_tx: watch::Sender<i64>,
    bridge_on: bool,
}
type StRef = Arc<Mutex<St>>;

impl St {
    fn side_of(ip: IpAddr) -> Option<usize> {
        match host_name(ip).as_str() {
            "A" => Some(0),
            "B" => Some(1),
            _ => None,
        }
    }
    /// (re)derive the DTLS-SRTP key candidates of side `s` from its current DtlsTransport
    fn refresh_dtls(&mut self, s: usize) -> String {
        let Some(pc) = self.pcs.get(s) else { return "no PeerConnection handle".into() };
        let Some(d) = pc.verif_dtls_transport() else { return "no DtlsTransport yet".into() };
        let ptr = Arc::as_ptr(&d) as usize;
        let state = d.get_state();
        let DtlsState::Connected(_, prof) = &state else { return format!("DTLS state {state}") };
        if self.ep[s].dtls_ptr == ptr && !self.ep[s].cands.is_empty() {
            return "DTLS Connected".into();
        }
        let prof = match prof {
            Some(0x0002) => 1,
            Some(0x0007) => 2,
            _ => 0,
        };
        let salt_len = if prof == 2 { 12 } else { 14 };
        let Ok(mat) = d.export_keying_material("EXTRACTOR-dtls_srtp", 2 * (16 + salt_len)) else { return "DTLS Connected but the exporter failed".into() };
        let (ck, sk, cs, ss) = (&mat[0..16], &mat[16..32], &mat[32..32 + salt_len], &mat[32 + salt_len..]);
        self.ep[s].dtls_ptr = ptr;
        self.ep[s].cands.push(Cand::new("dtls-srtp client write".into(), prof, ck.to_vec(), cs.to_vec()));
        self.ep[s].cands.push(Cand::new("dtls-srtp server write".into(), prof, sk.to_vec(), ss.to_vec()));
        "DTLS Connected".into()
    }
    fn add_sdes(&mut self, s: usize, sdp: &str) {
        for (prof, k, salt) in sdp_crypto(sdp) {
            if !self.ep[s].cands.iter().any(|c| c.key == k && c.salt == salt) {
                let n = self.ep[s].cands.len();
                self.ep[s].cands.push(Cand::new(format!("sdes key #{n} of {}'s own descriptions", SIDES[s]), prof, k, salt));
            }
        }
    }
    fn register_gen(&mut self, p: &[u8], side: usize, kind: u8, i: u32) {
        self.gen_payloads.insert(p.to_vec(), (side, kind, i));
        self.gen_heads.insert(p[..10].to_vec(), p.to_vec());
    }
    /// a complete attacker marker payload (24 bytes) somewhere inside `d`
    fn atk_marker_in(&self, d: &[u8]) -> Option<&Atk> {
        find(d, ATK_MAGIC).into_iter().filter(|p| d.len() >= p + 24).find_map(|p| self.atk_payloads.get(&d[p..p + 24]))
    }
    /// an application payload (or an attacker marker) inside a datagram, in clear
    fn leak_in(&self, d: &[u8]) -> Option<String> {
        for pos in find(d, GEN_MAGIC) {
            if d.len() >= pos + 10 {
                if let Some(p) = self.gen_heads.get(&d[pos..pos + 10]) {
                    if d[pos..].starts_with(p) {
                        let (side, kind, i) = self.gen_payloads[p];
                        return Some(format!("the payload of {} #{i} submitted by the application on {} ({} bytes at offset {pos})", ["audio sample", "video sample", "raw RTP packet"][kind.min(2) as usize], SIDES[side], p.len()));
                    }
                }
            }
        }
        None
    }
}

/// a frame / packet payload surfaced at `via` on side `x`
fn judge_payload(st: &StRef, sh: &SharedRef, x: usize, via: &str, data: &[u8], info: &str) {
    let verdict: Result<Option<(u8, u32)>, String> = {
        let g = st.lock().unwrap();
        if !g.enabled {
            return;
        }
        if let Some(a) = g.atk_payloads.get(data) {
            Err(format!("carries the payload of {}{}", a.describe(), if a.replayed { " - a genuine protected packet replayed with one bit flipped" } else { "" }))
        } else if let Some(a) = g.atk_marker_in(data) {
            Err(format!("contains the marker payload of {} ({})", a.describe(), hex(data)))
        } else {
            // an RFC 4588 retransmission surfaced without unwrapping carries the 2-byte original sequence number first
            let rtx_wrapped = data.len() > 2 && !g.gen_payloads.contains_key(data) && g.gen_payloads.contains_key(&data[2..]);
            match g.gen_payloads.get(if rtx_wrapped { &data[2..] } else { data }) {
                Some((side, kind, i)) if *side == 1 - x => Ok(Some((if rtx_wrapped { 3 } else { *kind }, *i))),
                // own payload coming back: nobody in this world reflects packets; not attributable to the attacker, counted only
                Some(_) => Ok(None),
                None => Ok(None),
            }
        }
    };
    let mut s = sh.lock().unwrap();
    match verdict {
        Ok(Some((kind, _))) => {
            s.stat(&format!("genuine.{via}.{}", SIDES[x]), 1);
            if via == "track" {
                s.stat("probe.genuine_media_delivered", 1);
                s.stat(&format!("probe.genuine_media_delivered.{}", ["audio", "video", "raw", "video_rtx_not_unwrapped"][kind.min(3) as usize]), 1);
            }
        }
        Ok(None) => {
            s.stat(&format!("probe.unattributed.{via}"), 1);
            s.event(&format!("rx {} {via} unattributed payload", SIDES[x]), &format!("{} {info}", hex(data)));
        }
        Err(why) => s.violate("C14.deliver", format!("{via} of {}: a delivered packet/frame {why} [{info}]", SIDES[x])),
    }
}

/// an RTP packet shown to an RtpObserver (`on_ingress`) of side `x`: must equal a packet the peer emitted under the keys
fn judge_ingress(st: &StRef, sh: &SharedRef, x: usize, p: &RtpPacket, src: SocketAddr) {
    let verdict: Result<(), String> = {
        let g = st.lock().unwrap();
        if !g.enabled {
            return;
        }
        let h = &p.header;
        let attrib = g.atk_payloads.get(&p.payload[..]).map(|a| format!("; its payload is that of {}", a.describe())).or_else(|| g.atk_by_ssrc.get(&h.ssrc).map(|a| format!("; its SSRC is that of {}", a.describe()))).unwrap_or_default();
        match g.ep[1 - x].emitted.get(&(h.ssrc, h.sequence_number)) {
            Some((b1, ts, pl)) if *pl == p.payload[..] && *ts == h.timestamp && (*b1 & 0x7f) == h.payload_type => Ok(()),
            Some((b1, ts, pl)) => Err(format!("ssrc={} seq={} was emitted by {} as pt={} ts={ts} payload {} but surfaced as pt={} ts={} payload {}{attrib}", h.ssrc, h.sequence_number, SIDES[1 - x], b1 & 0x7f, hex(pl), h.payload_type, h.timestamp, hex(&p.payload))),
            None => Err(format!("(ssrc={} seq={} pt={} from {src}, payload {}) was never emitted by {} under its session keys{attrib}", h.ssrc, h.sequence_number, h.payload_type, hex(&p.payload), SIDES[1 - x])),
        }
    };
    let mut s = sh.lock().unwrap();
    match verdict {
        Ok(()) => s.stat(&format!("genuine.observer.{}", SIDES[x]), 1),
        Err(why) => s.violate("C14.deliver", format!("RtpObserver.on_ingress of {}: accepted packet {why}", SIDES[x])),
    }
}

fn judge_rtcp(st: &StRef, sh: &SharedRef, x: usize, via: &str, p: &RtcpPacket) {
    let mut ids = Vec::new();
    rtcp_ssrcs(p, &mut ids);
    let hit = {
        let g = st.lock().unwrap();
        if !g.enabled {
            return;
        }
        // only SSRCs the attacker really used in this run: rustrtc draws RTX SSRCs at random, a range test would misfire
        ids.iter().find_map(|i| g.atk_by_ssrc.get(i).cloned()).map(|a| a.describe())
    };
    let mut s = sh.lock().unwrap();
    match hit {
        None => s.stat(&format!("genuine.{via}.{}", SIDES[x]), 1),
        Some(a) => s.violate("C14.deliver", format!("{via} of {}: an RTCP packet of {a} was delivered: {p:?}", SIDES[x])),
    }
}

struct Obs {
    side: usize,
    st: StRef,
    sh: SharedRef,
}
impl RtpObserver for Obs {
    fn on_ingress(&self, p: &RtpPacket, src: SocketAddr) {
        judge_ingress(&self.st, &self.sh, self.side, p, src);
    }
}
struct RxInt {
    side: usize,
    st: StRef,
    sh: SharedRef,
}
#[async_trait]
impl RtpReceiverInterceptor for RxInt {
    async fn on_packet_received(&self, p: &RtpPacket, src: SocketAddr, _local: SocketAddr) -> Option<RtcpPacket> {
        judge_payload(&self.st, &self.sh, self.side, "receiver_interceptor", &p.payload, &format!("ssrc={} seq={} pt={} from {src}", p.header.ssrc, p.header.sequence_number, p.header.payload_type));
        None
    }
    async fn on_rtcp_received(&self, p: &RtcpPacket, _t: Arc<RtpTransport>) {
        judge_rtcp(&self.st, &self.sh, self.side, "receiver_interceptor.rtcp", p);
    }
}
struct TxInt {
    side: usize,
    st: StRef,
    sh: SharedRef,
}
#[async_trait]
impl RtpSenderInterceptor for TxInt {
    async fn on_rtcp_received(&self, p: &RtcpPacket, _t: Arc<RtpTransport>) {
        judge_rtcp(&self.st, &self.sh, self.side, "sender_interceptor.rtcp", p);
    }
}

// ---------------------------------------------------------------------------
// wire oracle
// ---------------------------------------------------------------------------
struct PcWire(StRef);

impl WireOracle for PcWire {
    fn on_dtls_record(&mut self, from_host: &str, rec: &DtlsRecord<'_>, _plain: Option<&[u8]>, _len: usize, sh: &mut Shared) {
        if sh.cur_injected {
            return;
        }
        let g = self.0.lock().unwrap();
        if !g.enabled {
            return;
        }
        if rec.ct == 22 {
            g.phase_tx.send_if_modified(|c| {
                if *c < PH_DTLS {
                    *c = PH_DTLS;
                    true
                } else {
                    false
                }
            });
        }
        if from_host == "A" || from_host == "B" {
            if let Some(what) = g.leak_in(rec.body) {
                sh.violate("C14.tx", format!("{from_host} emitted a DTLS record (type {}, epoch {}) that contains {what} in clear", rec.ct, rec.epoch));
            }
        }
    }

    fn on_other(&mut self, from: SocketAddr, to: SocketAddr, d: &[u8], class: &str, sh: &mut Shared) {
        if sh.cur_injected {
            return;
        }
        let mut g = self.0.lock().unwrap();
        if !g.enabled {
            return;
        }
        let host = host_name(from.ip());
        if host == "C" {
            // the wire of the bridged peer (plain RTP by configuration): what it carries must have been accepted by
            // the victim's SRTP gate, i.e. stem from the genuine peer
            if class == "RTP" || class == "RTCP" {
                sh.stat("wire.bridge_target_datagrams", 1);
                let pl = rtp_payload(d).unwrap_or(d);
                if let Some(a) = g.atk_payloads.get(pl) {
                    sh.violate("C14.deliver", format!("bridged peer C: its wire carries the payload of {} ({} B datagram to {to})", a.describe(), d.len()));
                } else if let Some(a) = g.atk_marker_in(d) {
                    sh.violate("C14.deliver", format!("bridged peer C: its wire carries the marker payload of {} ({})", a.describe(), hex(d)));
                } else if g.gen_payloads.contains_key(pl) {
                    sh.stat("probe.genuine_media_bridged", 1);
                } else {
                    sh.stat("probe.unattributed.bridge_wire", 1);
                }
            }
            return;
        }
        let Some(s) = St::side_of(from.ip()) else { return };
        let who = SIDES[s];
        // no application payload in clear in any datagram of any class
        if let Some(what) = g.leak_in(d) {
            sh.violate("C14.tx", format!("{who} emitted a {} B {class} datagram to {to} that contains {what} in clear ({})", d.len(), hex(d)));
            return;
        }
        if class != "RTP" && class != "RTCP" {
            return;
        }
        sh.stat(&format!("wire.{}", class.to_lowercase()), 1);
        let mode = g.mode;
        let mut key_state = String::new();
        if mode == 0 {
            key_state = g.refresh_dtls(s);
        }
        let is_rtcp = class == "RTCP";
        let order = if is_rtcp { [true, false] } else { [false, true] };
        let mut opened: Option<(usize, Vec<u8>, bool)> = None;
        'c: for (ci, c) in g.ep[s].cands.iter_mut().enumerate() {
            for as_rtcp in order {
                let r = if as_rtcp { c.open_rtcp(d) } else { c.open_rtp(d) };
                if let Some(p) = r {
                    opened = Some((ci, p, as_rtcp));
                    break 'c;
                }
            }
        }
        let keyed = if mode == 0 { !g.ep[s].cands.is_empty() } else { g.ep[s].have_local && g.ep[s].have_remote };
        let Some((ci, plain, as_rtcp)) = opened else {
            let e = &g.ep[s];
            let state = if mode == 0 { key_state } else { format!("SDES: local description applied={}, remote description applied={}, {} a=crypto key(s) announced", e.have_local, e.have_remote, e.cands.len()) };
            if !keyed {
                sh.violate("C14.tx", format!("{who} emitted a {} B {class} datagram to {to} ({}) before its SRTP keys exist [{state}]", d.len(), hex(d)));
            } else {
                sh.violate("C14.tx", format!("{who} emitted a {} B {class} datagram to {to} ({}) that does not authenticate as SRTP/SRTCP under the reference context for any of {who}'s session keys ({}) [{state}]", d.len(), hex(d), e.cands.iter().map(|c| c.label.as_str()).collect::<Vec<_>>().join(", ")));
            }
            return;
        };
        if ci != 0 {
            g.ep[s].cands.swap(0, ci);
        }
        sh.stat("wire.validated", 1);
        sh.stat(&format!("wire.validated.{}.{}", if mode == 0 { "dtls_srtp" } else { "sdes" }, ["aes_cm_sha1_80", "aes_cm_sha1_32", "aead_aes_128_gcm"][g.ep[s].cands[0].prof.clamp(0, 2) as usize]), 1);
        if !keyed {
            sh.stat("probe.protected_before_both_descriptions", 1);
        }
        if g.ep[s].closed {
            sh.stat("wire.validated_after_close", 1);
        }
        if as_rtcp {
            for k in rtcp_kinds(&plain) {
                sh.stat(&format!("wire.rtcp.{k}"), 1);
                if k == "bye" && g.ep[s].closed {
                    sh.stat("probe.close_bye_protected", 1);
                }
            }
            g.ep[s].last_rtcp = Some(d.to_vec());
        } else if plain.len() >= 12 {
            let ssrc = u32::from_be_bytes([plain[8], plain[9], plain[10], plain[11]]);
            let seq = u16::from_be_bytes([plain[2], plain[3]]);
            let ts = u32::from_be_bytes([plain[4], plain[5], plain[6], plain[7]]);
            let pl = rtp_payload(&plain).map(|p| p.to_vec()).unwrap_or_default();
            if g.ep[s].emitted.contains_key(&(ssrc, seq)) {
                sh.stat("wire.rtp_retransmission", 1);
            }
            if plain[1] & 0x7f == 97 {
                sh.stat("wire.rtx", 1);
            }
            if g.gen_payloads.contains_key(&pl) {
                sh.stat("wire.validated_app_rtp", 1);
            }
            let off = rtp_payload_off(&plain);
            g.ep[s].last_rtp = Some((d.to_vec(), off.map(|o| (o, pl.clone()))));
            g.ep[s].emitted.insert((ssrc, seq), (plain[1], ts, pl));
        }
    }
}

// ---------------------------------------------------------------------------
// rig
// ---------------------------------------------------------------------------
struct End {
    name: &'static str,
    pc: PeerConnection,
    audio: Option<Arc<SampleStreamSource>>,
    video: Option<Arc<SampleStreamSource>>,
    keep: Vec<Box<dyn std::any::Any + Send + Sync>>,
}
impl End {
    fn add_tracks(&mut self, media: i64) {
        if media != 1 && self.audio.is_none() {
            let (src, track, fb) = sample_track(rustrtc::media::frame::MediaKind::Audio, 64);
            if self.pc.add_track(track, opus()).is_ok() {
                self.audio = Some(Arc::new(src));
            }
            self.keep.push(Box::new(fb));
        }
        if media != 0 && self.video.is_none() {
            let (src, track, fb) = sample_track(rustrtc::media::frame::MediaKind::Video, 64);
            if self.pc.add_track(track, vp8()).is_ok() {
                self.video = Some(Arc::new(src));
            }
            self.keep.push(Box::new(fb));
        }
    }
}

struct Env {
    sh: SharedRef,
    net: Arc<SimNet>,
    st: StRef,
    seed: u64,
    media: i64,
    mode: i64,
    pcs: [PeerConnection; 2],
    /// sources of the sending tracks: [side][0 audio, 1 video] (the answerer's exist only after it applied the offer)
    sources: Mutex<[[Option<Arc<SampleStreamSource>>; 2]; 2]>,
}

impl Env {
    fn ev(&self, sem: &str, detail: &str) {
        self.sh.lock().unwrap().event(sem, detail);
    }
    fn stat(&self, k: &str, n: u64) {
        self.sh.lock().unwrap().stat(k, n);
    }
    /// submit one sample with a registered payload; kind 0 audio, 1 video
    fn send_sample(&self, side: usize, kind: u8, i: u32) -> bool {
        let p = gen_payload(self.seed, side, kind, i);
        self.st.lock().unwrap().register_gen(&p, side, kind, i);
        let src = self.sources.lock().unwrap()[side][kind.min(1) as usize].clone();
        let Some(src) = src else { return false };
        match kind {
            0 => src.send(MediaSample::Audio(AudioFrame { rtp_timestamp: 1000 + i.wrapping_mul(960), data: Bytes::from(p), ..Default::default() })).is_ok(),
            _ => src.send(MediaSample::Video(VideoFrame { rtp_timestamp: 5000 + i.wrapping_mul(3000), data: Bytes::from(p), is_last_packet: true, ..Default::default() })).is_ok(),
        }
    }
    fn kind_str(&self, want_video: bool) -> &'static str {
        match self.media {
            0 => "audio",
            1 => "video",
            _ => {
                if want_video {
                    "video"
                } else {
                    "audio"
                }
            }
        }
    }

    async fn app_op(&self, i: usize, op: &Op) {
        let side = (op.arg(1) & 1) as usize;
        let what = op.arg(2);
        let n = op.arg(3).clamp(1, 8) as u32;
        let pc = &self.pcs[side];
        let base = 100_000 + (i as u32) * 16;
        let res: String = match what {
            0 | 1 => {
                let kind = if self.kind_str(what == 1) == "video" { 1 } else { 0 };
                let mut ok = 0;
                for j in 0..n {
                    ok += self.send_sample(side, kind, base + j) as u32;
                }
                format!("{} accepted={ok}", if kind == 1 { "video" } else { "audio" })
            }
            2 => {
                let mut ok = 0;
                for j in 0..n {
                    let p = gen_payload(self.seed, side, 2, base + j);
                    self.st.lock().unwrap().register_gen(&p, side, 2, base + j);
                    let pk = RtpPacket::new(RtpHeader::new(101, (7000 + base + j) as u16, 160 * (base + j), 0x0D7F_0000 + side as u32), p);
                    ok += pc.send_raw_rtp(pk).await.is_ok() as u32;
                }
                format!("ok={ok}")
            }
            3 | 4 => {
                let want_video = op.arg(4) & 1 == 1;
                let kind = if self.kind_str(want_video) == "video" { MediaKind::Video } else { MediaKind::Audio };
                match pc.get_transceivers().into_iter().find(|t| t.kind() == kind).and_then(|t| t.receiver()) {
                    Some(rx) => {
                        let r = if what == 3 { rx.request_key_frame().await } else { rx.send_nack(vec![(op.arg(4) as u16).wrapping_add(1), (op.arg(4) as u16).wrapping_add(3)]).await };
                        format!("{}", if r.is_ok() { "ok" } else { "err" })
                    }
                    None => "no receiver".into(),
                }
            }
            _ => "noop".into(),
        };
        self.ev(&format!("app {} {} {res}", SIDES[side], ["sample", "sample", "raw_rtp", "key_frame_request", "nack"][what.clamp(0, 4) as usize]), &format!("op#{i}"));
    }

    /// the attacker: op.a = [phase, victim, source, packet kind, media kind, burst, variant]
    async fn attack(&self, i: usize, op: &Op) {
        let phase = op.arg(0);
        let victim = (op.arg(1) & 1) as usize;
        let peer = 1 - victim;
        let spoof = op.arg(2) & 1 == 1;
        let pk = op.arg(3).clamp(0, 5) as usize;
        let kind = self.kind_str(op.arg(4) & 1 == 1);
        let burst = op.arg(5).clamp(1, 6) as usize;
        let variant = op.arg(6);
        let atk = Atk { op: i, phase, pk, victim, spoof, replayed: false };
        let rtcp = pk & 1 == 1;
        // what the attacker knows: the descriptions exchanged so far
        let (dests, from, pt, ssrc_peer, ssrc_victim, mid, victim_mux, prof, replay) = {
            let g = self.st.lock().unwrap();
            let v = &g.ep[victim];
            let p = &g.ep[peer];
            let vs = v.sdp.clone().unwrap_or_default();
            let ps = p.sdp.clone().unwrap_or_default();
            let mut dests = v.addrs.clone();
            let mux = vs.contains("a=rtcp-mux");
            if rtcp && !mux {
                let extra: Vec<SocketAddr> = dests.iter().map(|a| SocketAddr::new(a.ip(), a.port().wrapping_add(1))).collect();
                dests.extend(extra);
            }
            let from = if spoof { p.addrs.first().copied().unwrap_or_else(|| SocketAddr::new(if peer == 0 { "10.0.0.1" } else { "10.0.0.2" }.parse().unwrap(), 40000)) } else { SocketAddr::new("10.0.0.66".parse().unwrap(), 7000 + (i as u16 % 16)) };
            let pt = sdp_pt(&vs, kind).or_else(|| sdp_pt(&ps, kind)).unwrap_or(if kind == "video" { 96 } else { 111 });
            let mid = sdp_mid_ext(&vs).or_else(|| sdp_mid_ext(&ps)).and_then(|id| sdp_mid(&vs, kind).or_else(|| sdp_mid(&ps, kind)).map(|m| (id, m)));
            let prof = p.cands.first().map(|c| c.prof).unwrap_or(0);
            let replay = if rtcp { p.last_rtcp.clone().map(|d| (d, None)) } else { p.last_rtp.clone() };
            (dests, from, pt, sdp_ssrc(&ps, kind), sdp_ssrc(&vs, kind), mid, mux, prof, replay)
        };
        let label = format!("atk {} ->{} ph{} {}", PK_NAMES[pk], SIDES[victim], phase, if spoof { "spoofed" } else { "third-host" });
        if dests.is_empty() {
            self.stat("probe.attack_skipped_victim_has_no_address_yet", 1);
            self.ev(&format!("{label} skipped"), &format!("op#{i}"));
            return;
        }
        let _ = victim_mux;
        let tag_len = [10usize, 4, 16][prof.clamp(0, 2) as usize];
        let mut tagr = Rng::new(mix(mix(self.seed, 0x746167), i as u64));
        let mut wires: Vec<Vec<u8>> = Vec::new();
        for j in 0..burst {
            let atk_ssrc = ATK_SSRC | ((i as u32 & 0xff) << 8) | j as u32;
            let wire: Vec<u8> = if pk >= 4 && replay.is_some() {
                // replay of the peer's last genuine protected datagram with one bit flipped
                let (mut d, pl) = replay.clone().unwrap();
                let nbits = d.len() * 8;
                let choice = (variant as usize + j) % 3;
                let bit = match (choice, &pl) {
                    // inside the encrypted payload (AES-CM: the same bit of the plaintext flips)
                    (0, Some((off, p))) if !p.is_empty() => (off * 8 + (tagr.below(p.len() as u64 * 8) as usize)).min(nbits - 1),
                    // inside the authentication tag
                    (1, _) => nbits - 1 - tagr.below(8 * tag_len.min(d.len()) as u64) as usize,
                    // in the header (sequence number, timestamp, ssrc) / anywhere
                    _ => 16 + tagr.below((nbits - 16) as u64) as usize,
                };
                d[bit / 8] ^= 0x80 >> (bit % 8);
                if let Some((off, p)) = &pl {
                    if bit / 8 >= *off && bit / 8 < off + p.len() {
                        let mut fp = p.clone();
                        fp[bit / 8 - off] ^= 0x80 >> (bit % 8);
                        self.st.lock().unwrap().atk_payloads.insert(fp, Atk { replayed: true, ..atk.clone() });
                    }
                }
                self.stat("probe.replay_with_flipped_bit_injected", 1);
                d
            } else if !rtcp {
                let payload = atk_payload(self.seed, i, j);
                let use_real_ssrc = variant & 1 == 0;
                let ssrc = match (use_real_ssrc, ssrc_peer) {
                    (true, Some(s)) => s,
                    _ => atk_ssrc,
                };
                let mut h = RtpHeader::new(pt, (3000 + 40 * i + j) as u16, 90_000 + 960 * (j as u32), ssrc);
                h.marker = kind == "video" || j == 0;
                if variant & 2 == 0 {
                    if let Some((id, m)) = mid.as_ref() {
                        let _ = h.set_extension(*id, m.as_bytes());
                    }
                }
                {
                    let mut g = self.st.lock().unwrap();
                    g.atk_payloads.insert(payload.clone(), atk.clone());
                    g.atk_by_ssrc.insert(atk_ssrc, atk.clone());
                }
                let mut w = RtpPacket::new(h, payload).marshal().unwrap_or_default();
                if pk == 2 {
                    // "protected-looking": a random authentication tag appended
                    let mut tag = vec![0u8; tag_len];
                    tagr.fill(&mut tag);
                    w.extend_from_slice(&tag);
                }
                w
            } else {
                self.st.lock().unwrap().atk_by_ssrc.insert(atk_ssrc, atk.clone());
                let media = ssrc_victim.unwrap_or(atk_ssrc);
                let pli = RtcpPacket::PictureLossIndication(PictureLossIndication { sender_ssrc: atk_ssrc, media_ssrc: media });
                let nack = RtcpPacket::GenericNack(GenericNack { sender_ssrc: atk_ssrc, media_ssrc: media, lost_packets: vec![1, 2, 3] });
                let rb = ReportBlock { ssrc: media, fraction_lost: 0xC1, packets_lost: 0x4C14, highest_sequence: 0xC14C14, jitter: 0xC14C14, last_sender_report: 0, delay_since_last_sender_report: 0 };
                let rr = RtcpPacket::ReceiverReport(ReceiverReport { sender_ssrc: atk_ssrc, report_blocks: vec![rb.clone()] });
                let sr = RtcpPacket::SenderReport(SenderReport { sender_ssrc: ssrc_peer.unwrap_or(atk_ssrc), ntp_most: 1, ntp_least: 2, rtp_timestamp: 3, packet_count: 0xC14, octet_count: 0xC14C14, report_blocks: vec![rb] });
                let bye = RtcpPacket::Goodbye(Goodbye { sources: vec![ssrc_peer.unwrap_or(atk_ssrc)], reason: Some("C14X".into()) });
                let pkts = match (variant as usize + j) % 4 {
                    0 => vec![rr, pli],
                    1 => vec![rr, nack],
                    2 => vec![sr, pli, nack],
                    _ => vec![rr, bye, pli],
                };
                let mut w = marshal_rtcp_packets(&pkts).unwrap_or_default();
                if pk == 3 {
                    // "protected-looking": E|index word (E set or clear) and a random tag
                    let e = if variant & 4 == 0 { 0x8000_0000u32 } else { 0 };
                    w.extend_from_slice(&(e | (1 + j as u32)).to_be_bytes());
                    let mut tag = vec![0u8; if prof == 2 { 16 } else { 10 }];
                    tagr.fill(&mut tag);
                    if prof == 2 {
                        // GCM: tag precedes the index word
                        let idx: Vec<u8> = w.split_off(w.len() - 4);
                        w.extend_from_slice(&tag);
                        w.extend_from_slice(&idx);
                    } else {
                        w.extend_from_slice(&tag);
                    }
                }
                w
            };
            wires.push(wire);
        }
        let cur = *self.st.lock().unwrap().phase_tx.borrow();
        self.ev(&label, &format!("op#{i} x{burst} to {dests:?} from {from} (current phase {cur})"));
        {
            let mut s = self.sh.lock().unwrap();
            s.stat("attack.ops_fired", 1);
            s.stat(&format!("attack.fired_in_phase.{}", PHASE_NAMES[cur.clamp(0, 9) as usize]), 1);
            s.stat(&format!("attack.hit.mode{}.{}.{}", self.mode, PHASE_NAMES[cur.clamp(0, 9) as usize], if rtcp { "rtcp" } else { "rtp" }), 1);
            s.stat(&format!("attack.kind.{}", PK_NAMES[pk]), 1);
            s.stat(if spoof { "attack.source.spoofed" } else { "attack.source.third_host" }, 1);
        }
        for w in wires {
            for d in dests.iter() {
                self.net.inject(from, *d, &w);
                self.stat("attack.datagrams", 1);
            }
        }
    }
}

fn buffered_packets(pc: &PeerConnection) -> u64 {
    let s = format!("{:?}", pc.ice_transport());
    s.find("buffered_packets: ").and_then(|i| s[i + 18..].split(|c: char| !c.is_ascii_digit()).next().and_then(|n| n.parse().ok())).unwrap_or(0)
}

fn enter(env: &Env, p: i64) {
    let tx = env.st.lock().unwrap().phase_tx.clone();
    tx.send_if_modified(|c| {
        if *c < p {
            *c = p;
            true
        } else {
            false
        }
    });
    env.ev(&format!("phase {}", PHASE_NAMES[p.clamp(0, 9) as usize]), "");
}

fn spawn_readers(env: &Arc<Env>, side: usize, tasks: &mut Vec<JoinHandle<()>>, seen: &mut Vec<u64>) {
    for tr in env.pcs[side].get_transceivers() {
        if seen.contains(&tr.id()) {
            continue;
        }
        seen.push(tr.id());
        if let Some(rx) = tr.receiver() {
            let track = rx.track();
            let (st, sh) = (env.st.clone(), env.sh.clone());
            tasks.push(tokio::spawn(vh::wrap_task(async move {
                while let Ok(s) = track.recv().await {
                    let (d, info) = match s {
                        MediaSample::Audio(f) => (f.data.to_vec(), format!("audio frame seq={:?} from {:?}", f.sequence_number, f.source_addr)),
                        MediaSample::Video(f) => (f.data.to_vec(), format!("video frame seq={:?} from {:?}", f.sequence_number, f.source_addr)),
                    };
                    judge_payload(&st, &sh, side, "track", &d, &info);
                }
            })));
        }
        if let Some(tx) = tr.sender() {
            let mut sub = tx.subscribe_rtcp();
            let (st, sh) = (env.st.clone(), env.sh.clone());
            tasks.push(tokio::spawn(vh::wrap_task(async move {
                loop {
                    match sub.recv().await {
                        Ok(p) => judge_rtcp(&st, &sh, side, "sender.subscribe_rtcp", &p),
                        Err(tokio::sync::broadcast::error::RecvError::Lagged(_)) => {}
                        Err(_) => break,
                    }
                }
            })));
        }
    }
}

/// one offer/answer round; `first` = the phased initial negotiation
/// `late_ms` > 0 (first round only): the answering application hands its answer to the signaling channel first and
/// applies it locally only that long after the offerer has applied it
async fn negotiate(env: &Arc<Env>, ends: &mut [End; 2], offerer: usize, sig_delay: Duration, first: bool, late_ms: u64, tasks: &mut Vec<JoinHandle<()>>, seen: &mut [Vec<u64>; 2]) -> Result<(), String> {
    let (o, a) = (offerer, 1 - offerer);
    let mode = env.st.lock().unwrap().mode;
    let note_local = |side: usize, sdp: &str| {
        let mut g = env.st.lock().unwrap();
        g.ep[side].sdp = Some(sdp.to_string());
        let ad = addrs_of(sdp);
        if !ad.is_empty() {
            g.ep[side].addrs = ad;
        }
    };
    let _ = ends[o].pc.create_offer().await.map_err(|e| format!("{} create_offer: {e}", SIDES[o]))?;
    ends[o].pc.wait_for_gathering_complete().await;
    let offer = ends[o].pc.create_offer().await.map_err(|e| format!("{} create_offer(2): {e}", SIDES[o]))?;
    let offer_s = offer.to_sdp_string();
    ends[o].pc.set_local_description(offer).map_err(|e| format!("{} set_local(offer): {e}", SIDES[o]))?;
    note_local(o, &offer_s);
    {
        let mut g = env.st.lock().unwrap();
        if mode == 1 {
            g.add_sdes(o, &offer_s);
        }
        g.ep[o].have_local = true;
    }
    env.ev(&format!("sig {} offer set locally", SIDES[o]), &offer_s);
    if first {
        enter(env, PH_OFFER_SENT);
    }
    tokio::time::sleep(sig_delay).await;
    let offer_rx = SessionDescription::parse(SdpType::Offer, &offer_s).map_err(|e| format!("offer does not re-parse: {e}"))?;
    env.st.lock().unwrap().ep[a].have_remote = true; // applied or being applied
    ends[a].pc.set_remote_description(offer_rx).await.map_err(|e| format!("{} set_remote(offer): {e}", SIDES[a]))?;
    ends[a].add_tracks(env.media);
    env.sources.lock().unwrap()[a] = [ends[a].audio.clone(), ends[a].video.clone()];
    spawn_readers(env, a, tasks, &mut seen[a]);
    let _ = ends[a].pc.create_answer().await.map_err(|e| format!("{} create_answer: {e}", SIDES[a]))?;
    ends[a].pc.wait_for_gathering_complete().await;
    let answer = ends[a].pc.create_answer().await.map_err(|e| format!("{} create_answer(2): {e}", SIDES[a]))?;
    let answer_s = answer.to_sdp_string();
    // the answerer's sockets are bound now; the attacker learns the addresses (it will read them off the answer anyway)
    note_local(a, &answer_s);
    if first {
        enter(env, PH_ANSWER_CREATED);
    }
    tokio::time::sleep(sig_delay).await;
    let apply_answer = |ends: &mut [End; 2], answer: SessionDescription| -> Result<(), String> {
        if first {
            let n = buffered_packets(&ends[a].pc);
            env.stat(&format!("probe.early_buffer.answerer_datagrams_buffered_before_its_answer_is_set.mode{mode}"), n);
            env.stat(&format!("probe.early_buffer.answerer_runs_with_buffered_datagrams.mode{mode}"), (n > 0) as u64);
            env.ev("early buffer at the answerer", &format!("{n} datagram(s) buffered"));
        }
        {
            // the keys of the answer count as announced from the moment the application hands it to rustrtc
            let mut g = env.st.lock().unwrap();
            if mode == 1 {
                g.add_sdes(a, &answer_s);
            }
            g.ep[a].have_local = true;
        }
        ends[a].pc.set_local_description(answer).map_err(|e| format!("{} set_local(answer): {e}", SIDES[a]))?;
        env.ev(&format!("sig {} answer set locally", SIDES[a]), &answer_s);
        Ok(())
    };
    let mut held_answer = None;
    if late_ms == 0 {
        apply_answer(ends, answer)?;
    } else {
        held_answer = Some(answer);
    }
    if first {
        enter(env, PH_ANSWER_SENT);
    }
    tokio::time::sleep(sig_delay).await;
    let answer_rx = SessionDescription::parse(SdpType::Answer, &answer_s).map_err(|e| format!("answer does not re-parse: {e}"))?;
    if first {
        let n = buffered_packets(&ends[o].pc);
        env.stat(&format!("probe.early_buffer.offerer_datagrams_buffered_when_the_answer_arrives.mode{mode}"), n);
        env.stat(&format!("probe.early_buffer.offerer_runs_with_buffered_datagrams.mode{mode}"), (n > 0) as u64);
        env.ev("early buffer at the offerer", &format!("{n} datagram(s) buffered"));
        enter(env, PH_START);
    }
    env.st.lock().unwrap().ep[o].have_remote = true; // applied or being applied
    ends[o].pc.set_remote_description(answer_rx).await.map_err(|e| format!("{} set_remote(answer): {e}", SIDES[o]))?;
    if let Some(answer) = held_answer {
        tokio::time::sleep(Duration::from_millis(late_ms)).await;
        env.stat("probe.answer_applied_locally_after_the_offerer_applied_it", 1);
        apply_answer(ends, answer)?;
    }
    Ok(())
}


async fn workload(env: Arc<Env>, n: u32, gap_ms: u64, base: u32) {
    for i in 0..n {
        for side in 0..2 {
            if env.media != 1 {
                env.send_sample(side, 0, base + i);
            }
            if env.media != 0 {
                env.send_sample(side, 1, base + i);
            }
        }
        tokio::time::sleep(Duration::from_millis(gap_ms)).await;
    }
}

pub async fn run(ctx: &Ctx) {
    let plan = &ctx.plan;
    let mode = plan.knob("mode", 0).clamp(0, 1);
    let media = plan.knob("media", 0).clamp(0, 2);
    let mut kp = plan.clone();
    kp.knobs.insert("mode".into(), mode);
    kp.knobs.insert("mix".into(), if media == 0 { 1 } else { 2 });
    let k = PcKnobs::from_plan(&kp);
    if let Err(why) = k.compatible() {
        ctx.violate("HARNESS.scenario", format!("srtp_gate_pc: incompatible PeerConnection configuration: {why}"));
        return;
    }
    let offerer = (k.offerer & 1) as usize;
    let (phase_tx, phase_rx) = watch::channel::<i64>(-1);
    let st: StRef = Arc::new(Mutex::new(St { enabled: true, mode, ep: Default::default(), pcs: Vec::new(), atk_payloads: BTreeMap::new(), gen_payloads: BTreeMap::new(), gen_heads: BTreeMap::new(), atk_by_ssrc: BTreeMap::new(), phase_tx, bridge_on: false }));
    {
        let mut m = StdMonitor::new(ctx.keys.clone());
        m.oracles.push(Box::new(PcWire(st.clone())));
        ctx.net.set_monitor(Box::new(m));
    }
    ctx.net.install_binder();
    let mk = |side: usize| {
        let mut cfg = make_config(&k, side, plan);
        cfg.recorder_interceptors.receivers.push(Arc::new(RxInt { side, st: st.clone(), sh: ctx.sh.clone() }));
        cfg.recorder_interceptors.senders.push(Arc::new(TxInt { side, st: st.clone(), sh: ctx.sh.clone() }));
        if media != 0 && plan.knob("rtx", 1) == 1 {
            let mut caps = cfg.media_capabilities.clone().unwrap_or_default();
            caps.video = vec![rustrtc::config::VideoCapability::vp8_with_rtx(97)];
            cfg.media_capabilities = Some(caps);
        }
        End { name: SIDES[side], pc: PeerConnection::new(cfg), audio: None, video: None, keep: Vec::new() }
    };
    let mut ends = [mk(0), mk(1)];
    ends[offerer].add_tracks(media);
    st.lock().unwrap().pcs = vec![ends[0].pc.clone(), ends[1].pc.clone()];
    ctx.ev(&format!("rig mode{mode} media{media} bundle{} mux{} compat{} latch{} lite{} udpmux{} offerer {}", k.bundle, k.mux, k.compat, k.latch, k.lite, k.udpmux, SIDES[offerer]), "");
    let env = Arc::new(Env {
        sh: ctx.sh.clone(),
        net: ctx.net.clone(),
        st: st.clone(),
        seed: plan.seed,
        media,
        mode,
        pcs: [ends[0].pc.clone(), ends[1].pc.clone()],
        sources: Mutex::new([[ends[0].audio.clone(), ends[0].video.clone()], [ends[1].audio.clone(), ends[1].video.clone()]]),
    });
    let mut tasks: Vec<JoinHandle<()>> = Vec::new();
    let mut seen: [Vec<u64>; 2] = [Vec::new(), Vec::new()];
    spawn_readers(&env, offerer, &mut tasks, &mut seen[offerer]);

    // every op fires from its own task: `at_ms` after its phase was entered
    let mut op_tasks: Vec<JoinHandle<()>> = Vec::new();
    let mut n_atk = 0;
    for (i, op) in plan.ops.iter().cloned().enumerate() {
        if op.kind == "atk" {
            n_atk += 1;
        }
        let e = env.clone();
        let mut rx = phase_rx.clone();
        op_tasks.push(tokio::spawn(vh::wrap_task(async move {
            let phase = op.arg(0).clamp(0, NPH - 1);
            if rx.wait_for(|c| *c >= phase).await.is_err() {
                return;
            }
            tokio::time::sleep(Duration::from_millis(op.at_ms)).await;
            match op.kind.as_str() {
                "atk" => e.attack(i, &op).await,
                "app" => e.app_op(i, &op).await,
                other => e.sh.lock().unwrap().violate("HARNESS.op", format!("unknown op kind {other}")),
            }
        })));
    }
    // an RtpObserver can only be added once the transport exists (PeerConnection::add_observer is a no-op before)
    for side in 0..2 {
        let e = env.clone();
        let mut rx = phase_rx.clone();
        let from_phase = if side == offerer { PH_START } else { PH_ANSWER_SENT };
        tasks.push(tokio::spawn(vh::wrap_task(async move {
            if rx.wait_for(|c| *c >= from_phase).await.is_err() {
                return;
            }
            for _ in 0..70_000 {
                if e.pcs[side].verif_rtp_transport().is_some() {
                    e.pcs[side].add_observer(Arc::new(Obs { side, st: e.st.clone(), sh: e.sh.clone() }));
                    e.ev(&format!("observer added {}", SIDES[side]), "");
                    return;
                }
                tokio::time::sleep(Duration::from_millis(1)).await;
            }
        })));
    }

    let sig_delay = Duration::from_millis(plan.knob("sig_delay_ms", 0).clamp(0, 5000) as u64);
    let lat_ms = plan.latency_us[0].max(plan.latency_us[1]) / 1000 + 1;
    let mut connected = false;
    let mut extra: Vec<crate::rig_pc::Peer> = Vec::new();
    let late_ms = plan.knob("ans_late_ms", 0).clamp(0, 5000) as u64;
    match negotiate(&env, &mut ends, offerer, sig_delay, true, late_ms, &mut tasks, &mut seen).await {
        Err(e) => ctx.violate("HARNESS.negotiate", format!("srtp_gate_pc: genuine negotiation failed: {e}")),
        Ok(()) => {
            let r = tokio::time::timeout(Duration::from_secs(60), async {
                let a = ends[0].pc.wait_for_connected().await.is_ok();
                let b = ends[1].pc.wait_for_connected().await.is_ok();
                a && b
            })
            .await;
            connected = matches!(r, Ok(true));
            ctx.ev(&format!("connected={connected}"), &format!("A {:?} B {:?}", *ends[0].pc.subscribe_peer_state().borrow(), *ends[1].pc.subscribe_peer_state().borrow()));
            for s in 0..2 {
                let left = buffered_packets(&ends[s].pc);
                ctx.stat("probe.early_buffer.datagrams_left_unflushed_after_start", left);
            }
        }
    }
    enter(&env, PH_CONNECTED);
    if connected {
        ctx.stat("connected_runs", 1);
        let n = plan.knob("nsamples", 6).clamp(1, 200) as u32;
        let gap = plan.knob("gap_ms", 20).clamp(1, 1000) as u64;
        let w = tokio::spawn(vh::wrap_task(workload(env.clone(), n, gap, 0)));
        if plan.knob("reneg", 0) == 1 {
            tokio::time::sleep(Duration::from_millis(gap * 2)).await;
            enter(&env, PH_RENEG);
            let who = if plan.knob("reneg_by", 0) == 0 { offerer } else { 1 - offerer };
            match negotiate(&env, &mut ends, who, sig_delay.min(Duration::from_millis(50)), false, 0, &mut tasks, &mut seen).await {
                Ok(()) => ctx.stat("probe.renegotiation_completed", 1),
                Err(e) => {
                    ctx.stat("escape.renegotiation_refused", 1);
                    ctx.ev("renegotiation refused", &e);
                }
            }
        }
        let _ = w.await;
        tokio::time::sleep(Duration::from_millis(2 * lat_ms + 150)).await;
        // knob bridge: from here on the victim relays what its SRTP gate accepts to the plain-RTP PeerConnection C
        // (10.0.0.3, connected to D 10.0.0.4); C's wire is judged by the wire oracle
        let bridge = plan.knob("bridge", 0) == 1;
        if bridge {
            let victim = (plan.knob("bridge_side", 1) & 1) as usize;
            let kk = PcKnobs { mode: 2, mix: if media == 0 { 1 } else { 2 }, bundle: 0, mux: 0, lite: 0, udpmux: 0, latch: 0, compat: 0, offerer: 0, tcp: 0 };
            let mkx = |ip: &str, name: &'static str, ssrc: u32| {
                let mut cfg = make_config(&kk, 0, plan);
                cfg.bind_ip = Some(ip.into());
                cfg.ssrc_start = ssrc;
                crate::rig_pc::Peer::with_config(name, cfg)
            };
            let mut c = mkx("10.0.0.3", "C", 30_000);
            let mut d = mkx("10.0.0.4", "D", 35_000);
            c.add_media(&kk);
            match crate::rig_pc::negotiate(&mut c, &mut d, &kk, ctx).await {
                Ok(_) => {
                    let _ = tokio::time::timeout(Duration::from_secs(10), async {
                        let _ = c.pc.wait_for_connected().await;
                    })
                    .await;
                    match ends[victim].pc.bridge_rtp_with_rewrite_to(&c.pc, RtpRewriteBridgeParams { fixed_out_ssrc: Some(0xB41D_6E00), ..Default::default() }) {
                        Ok(()) => {
                            st.lock().unwrap().bridge_on = true;
                            ctx.ev(&format!("bridge {}->C installed", SIDES[victim]), "");
                            ctx.stat("probe.bridge_installed", 1);
                        }
                        Err(e) => ctx.violate("HARNESS.bridge", format!("bridge install failed: {e}")),
                    }
                }
                Err(e) => ctx.violate("HARNESS.bridge", format!("C/D negotiation failed: {e}")),
            }
            extra.push(c);
            extra.push(d);
        }
        enter(&env, PH_STEADY);
        let steady = plan.knob("steady_ms", 0).clamp(0, 30_000) as u64;
        if steady > 0 || bridge {
            tokio::time::sleep(Duration::from_millis(steady)).await;
            workload(env.clone(), 3, gap, 50_000).await;
            tokio::time::sleep(Duration::from_millis(2 * lat_ms + 100)).await;
        }
    }
    // close: first one side (its BYE), the other keeps sending towards the closed peer, then the other
    let closer = (plan.knob("closer", 0) & 1) as usize;
    enter(&env, PH_CLOSING);
    st.lock().unwrap().ep[closer].closed = true;
    ctx.ev(&format!("api {} close", SIDES[closer]), "");
    ends[closer].pc.close();
    if connected {
        workload(env.clone(), 2, 10, 60_000).await;
    }
    tokio::time::sleep(Duration::from_millis(plan.knob("close_gap_ms", 40).clamp(0, 5000) as u64)).await;
    enter(&env, PH_CLOSED);
    st.lock().unwrap().ep[1 - closer].closed = true;
    ctx.ev(&format!("api {} close", SIDES[1 - closer]), "");
    ends[1 - closer].pc.close();
    for t in op_tasks {
        match tokio::time::timeout(Duration::from_secs(30), t).await {
            Ok(Ok(())) => {}
            Ok(Err(e)) if e.is_panic() => ctx.violate("HARNESS.task_panic", "an op task panicked".into()),
            Ok(Err(_)) => {}
            Err(_) => ctx.violate("HARNESS.stuck", "an op task did not finish within 30 virtual seconds after the last phase".into()),
        }
    }
    tokio::time::sleep(Duration::from_millis(2 * lat_ms + 200)).await;

    {
        let mut sh = ctx.sh.lock().unwrap();
        for s in 0..2 {
            sh.stat(&format!("accepted_rtp.{}", SIDES[s]), ends[s].pc.received_rtp_packets());
        }
        let got = |sh: &Shared, k: &str| sh.stats.get(k).copied().unwrap_or(0);
        let delivered = got(&sh, "probe.genuine_media_delivered");
        let attacked = got(&sh, "attack.datagrams");
        let (ga, gb) = (got(&sh, "genuine.track.A"), got(&sh, "genuine.track.B"));
        if n_atk == 0 {
            sh.stat("control_runs_without_attacker", 1);
        }
        let bridged_ok = got(&sh, "probe.bridge_installed") == 0 || got(&sh, "probe.genuine_media_bridged") > 0;
        let kf_cfg = k.mode == 1 && k.compat == 1 && k.has_video();
        if kf_cfg {
            sh.stat("probe.sdes_legacy_av_config", 1);
        }
        if n_atk == 0 && !plan.has_faults() && !kf_cfg && (!connected || ga == 0 || gb == 0 || !bridged_ok) {
            sh.violate("HARNESS.vacuous", format!("fault-free attacker-free control run: connected={connected}, genuine frames delivered at A={ga}, at B={gb}: the delivery oracle would be vacuous"));
        }
        if connected && delivered == 0 {
            sh.stat("escape.no_genuine_media_delivered", 1);
        }
        if (attacked > 0 || n_atk == 0) && delivered > 0 {
            sh.stat("nontrivial", 1);
        }
        let now = sh.now_ms() as u64;
        sh.stat("virt_ms", now);
    }
    {
        let mut g = st.lock().unwrap();
        g.enabled = false;
        g.pcs.clear();
    }
    for t in tasks {
        t.abort();
    }
    for e in ends.iter() {
        e.pc.clear_observers();
        let _ = e.name;
    }
    for p in extra.iter() {
        p.pc.close();
    }
    drop(extra);
    drop(env);
    drop(ends);
    tokio::time::sleep(Duration::from_millis(100)).await;
}

// ---------------------------------------------------------------------------
// plans
// ---------------------------------------------------------------------------
/// systematic core: {mode} x {media} x {phase} x {source} x {RTP, RTCP} x {cleartext, protected-looking/replayed}
pub fn core_runs() -> u64 {
    2 * 3 * NPH as u64 * 2 * 2 * 2
}

pub fn budget(_prop: &str, tier: Tier) -> u64 {
    core_runs() + if tier == Tier::Quick { 9_520 } else { 200_000 }
}

fn atk_op(phase: i64, delta: u64, victim: i64, source: i64, pk: i64, kind: i64, burst: i64, variant: i64) -> Op {
    Op { at_ms: delta, kind: "atk".into(), a: vec![phase, victim, source, pk, kind, burst, variant], s: String::new() }
}
fn app_op(phase: i64, delta: u64, side: i64, what: i64, n: i64, extra: i64) -> Op {
    Op { at_ms: delta, kind: "app".into(), a: vec![phase, side, what, n, extra], s: String::new() }
}

pub fn generate(prop: &str, seed: u64, idx: u64, _tier: Tier) -> Plan {
    let mut r = Rng::new(mix(mix(seed, idx), fnv(fnv(FNV0, prop.as_bytes()), b"srtp_gate_pc")));
    let mut p = Plan { prop: prop.into(), scenario: "srtp_gate_pc".into(), seed: r.next(), ..Default::default() };
    p.sched = Sched { rng_seed: r.next(), defer_pct: 0 };
    p.heal_at_ms = 120_000;
    let kn = |p: &mut Plan, k: &str, v: i64| {
        p.knobs.insert(k.into(), v);
    };
    if idx < core_runs() {
        let mut j = idx;
        let mut take = |n: u64| {
            let v = j % n;
            j /= n;
            v as i64
        };
        let flavour = take(2);
        let rtcp = take(2);
        let source = take(2);
        let phase = take(NPH as u64);
        let media = take(3);
        let mode = take(2);
        kn(&mut p, "mode", mode);
        kn(&mut p, "media", media);
        kn(&mut p, "offerer", r.below(2) as i64);
        kn(&mut p, "closer", r.below(2) as i64);
        kn(&mut p, "sig_delay_ms", 40);
        kn(&mut p, "nsamples", 6);
        kn(&mut p, "gap_ms", 20);
        kn(&mut p, "reneg", (phase == PH_RENEG) as i64);
        kn(&mut p, "steady_ms", if phase == PH_STEADY { 3300 } else { 0 });
        kn(&mut p, "core", 1);
        p.latency_us = [1000, 1000];
        let pk = match (flavour, phase >= PH_CONNECTED && phase <= PH_CLOSING) {
            (0, _) => rtcp,
            (_, false) => 2 + rtcp,
            (_, true) => 4 + rtcp,
        };
        for victim in 0..2 {
            let delta = r.below(12);
            p.ops.push(atk_op(phase, delta, victim, source, pk, r.below(2) as i64, 3, r.below(16) as i64));
        }
        // outbound: the application tries every send path in the same phase
        for what in [2, 3, 4, r.below(2) as i64] {
            p.ops.push(app_op(phase, r.below(12), r.below(2) as i64, what, 2, r.below(64) as i64));
        }
        return p;
    }
    // ---- swarm
    let mode = r.below(2) as i64;
    let media = r.below(3) as i64;
    kn(&mut p, "mode", mode);
    kn(&mut p, "bundle", r.below(3) as i64);
    kn(&mut p, "mux", r.below(2) as i64);
    kn(&mut p, "offerer", r.below(2) as i64);
    if mode == 1 {
        let compat = r.chance(30) as i64;
        // SDES + LegacySip + audio+video is the open known finding KF-sdes-legacy-nonbundle of C10 (no decodable media);
        // C14's demands (nothing in clear on the wire, no cleartext delivered) hold there all the same, so the
        // configuration is run - only the "control runs deliver media" self-check is skipped for it
        kn(&mut p, "compat", compat);
        kn(&mut p, "latch", *r.pick(&[0i64, 0, 1, 2]));
    } else {
        let lite = *r.pick(&[0i64, 0, 0, 0, 1, 2]);
        let udpmux = r.chance(12) as i64;
        kn(&mut p, "lite", lite);
        kn(&mut p, "udpmux", udpmux);
        let mut probe = p.clone();
        probe.knobs.insert("mix".into(), 1);
        if PcKnobs::from_plan(&probe).compatible().is_err() {
            kn(&mut p, "lite", 0);
        }
    }
    kn(&mut p, "media", media);
    kn(&mut p, "rtx", r.chance(60) as i64);
    kn(&mut p, "sig_delay_ms", *r.pick(&[0i64, 0, 1, 5, 30, 30, 80, 200]));
    kn(&mut p, "nsamples", r.range(3, 14) as i64);
    kn(&mut p, "gap_ms", *r.pick(&[5i64, 20, 20, 33]));
    kn(&mut p, "reneg", r.chance(25) as i64);
    kn(&mut p, "reneg_by", r.below(2) as i64);
    kn(&mut p, "steady_ms", *r.pick(&[0i64, 0, 0, 0, 3300, 6500]));
    kn(&mut p, "closer", r.below(2) as i64);
    kn(&mut p, "close_gap_ms", *r.pick(&[0i64, 5, 40, 40, 300]));
    if r.chance(15) {
        kn(&mut p, "ans_late_ms", *r.pick(&[1i64, 5, 30, 100, 300]));
    }
    if r.chance(15) {
        kn(&mut p, "bridge", 1);
        kn(&mut p, "bridge_side", r.below(2) as i64);
    }
    p.latency_us = [r.range(200, 40_000), r.range(200, 40_000)];
    if r.chance(25) {
        p.latency_us = [*r.pick(&[1u64, 100, 20_000]), *r.pick(&[1u64, 100, 20_000])];
    }
    p.sched.defer_pct = if r.chance(60) { 0 } else { r.range(1, 30) as u8 };
    let deltas: [u64; 10] = [0, 0, 1, 2, 5, 10, 20, 30, 100, 250];
    let control = r.chance(7);
    if !control {
        // swarm: a per-run subset of packet kinds and phases
        let kinds: Vec<i64> = (0..6).filter(|_| r.chance(60)).collect();
        let kinds = if kinds.is_empty() { vec![0, 1] } else { kinds };
        let early_bias = r.chance(50);
        for _ in 0..r.range(1, 6) {
            let phase = if early_bias && r.chance(60) { r.below(4) as i64 } else { r.below(NPH as u64) as i64 };
            p.ops.push(atk_op(phase, *r.pick(&deltas), r.below(2) as i64, r.below(2) as i64, *r.pick(&kinds), r.below(2) as i64, r.range(1, 5) as i64, r.below(16) as i64));
        }
    }
    for _ in 0..r.below(6) {
        p.ops.push(app_op(r.below(NPH as u64) as i64, *r.pick(&deltas), r.below(2) as i64, r.below(5) as i64, r.range(1, 4) as i64, r.below(64) as i64));
    }
    if !control || r.chance(50) {
        // faults on the endpoints' own datagrams (the attacker's are never faulted): loss provokes NACK/RTX,
        // corrupted genuine packets are unauthenticated input
        if r.chance(40) {
            for _ in 0..r.range(1, 3) {
                let action = match r.below(6) {
                    0 | 1 => Action::Drop,
                    2 => Action::Dup { delay_ms: r.range(0, 30), copies: 1 },
                    3 => Action::Delay { ms: r.range(1, 120) },
                    4 => Action::FlipBit { bit: r.below(900) as u32 },
                    _ => Action::Truncate { len: r.range(8, 60) as u32 },
                };
                p.faults.push(Rule { from: r.pick(&["A", "B"]).to_string(), class: r.pick(&["RTP", "RTP", "RTCP"]).to_string(), ordinal: r.below(12) as u32, action });
            }
        }
        if r.chance(25) {
            p.bg = Background { drop_pm: r.below(30) as u32, dup_pm: r.below(30) as u32, delay_pm: r.below(30) as u32, delay_max_ms: r.range(1, 60), flip_pm: 0, subseed: r.next(), class: String::new() };
        }
    }
    p
}
