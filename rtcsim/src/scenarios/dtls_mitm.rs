//! Scenario `dtls_mitm` (second half of C02's index space): an ACTIVE man-in-the-middle that speaks DTLS 1.2 itself.
//!
//! Hosts: A = genuine rustrtc DTLS client (the victim; it knows an address - M's - and the fingerprint of B's
//! certificate), B = genuine rustrtc DTLS server holding that certificate (reachable by the attacker only),
//! M = scripted DTLS 1.2 endpoint written here (own encoders, ECDHE P-256, TLS 1.2 PRF, extended master secret,
//! AES-128-GCM record protection, Finished). Every datagram A sends goes to M; M talks to B as a client would.
//!
//! M executes the *script* in `plan.ops` (see `Item` below): relay the genuine message of type T from B
//! (renumbered or not), send an own message of type T (own certificate / own ECDH share / own signature /
//! garbage signature / copies of B's public material), skip, duplicate, reorder, ChangeCipherSpec, Finished
//! (valid when M was able to compute the master secret, garbage otherwise), application data, HelloVerifyRequest,
//! messages of the wrong role. `wait` = wait for the client's second flight; M then tries to derive the session keys
//! from its own ECDH secret (and from the "all-zero premaster" guess) and checks them against the client's Finished.
//!
//! Oracles (ids shared with dtls.rs):
//!   C02.auth        - A reached Connected although the handshake was not an authentic one with B: B is not Connected
//!                     with the same master secret, or M was able to compute A's master secret, or no Finished
//!                     produced by B had been handed to A before A reported Connected (A accepted M's Finished).
//!   C02.fail-closed - A's upper layer received a payload that B never sent (M's "injected-by-M" payloads in
//!                     particular), or A exports SRTP keying material / ends in a state other than Failed in a run
//!                     in which it never completed an authentic handshake with B.
//!   HARNESS.mitm-*  - control runs: a pure forwarder, the honest script and M under its own identity MUST connect.
//! A handshake that simply fails or times out under attack is fine.
use super::dtls::{fp_of, payload};
use super::Tier;
use crate::monitor::{dtls_records, open_record, seal_record};
use crate::net::{addr, SharedRef};
use crate::plan::*;
use crate::rig::{dtls_state_name, layer_ep};
use crate::sim::{cert_der, Ctx};
use bytes::Bytes;
use hmac::{Hmac, Mac};
use p256::ecdsa::{signature::Signer, Signature, SigningKey};
use p256::elliptic_curve::sec1::ToEncodedPoint;
use p256::pkcs8::DecodePrivateKey;
use rustrtc::transports::dtls::{DtlsState, DtlsTransport};
use rustrtc::verif_hooks as vh;
use sha2::{Digest, Sha256};
use std::collections::BTreeMap;
use std::net::SocketAddr;
use std::sync::{Arc, Mutex};
use std::time::Duration;

const DEADLINE_MS: u64 = 30_000;
const T_SH: u8 = 2;
const T_CERT: u8 = 11;
const T_SKE: u8 = 12;
const T_SHD: u8 = 14;

// ---------------------------------------------------------------------------
// TLS 1.2 primitives of the attacker (harness-own; rustrtc's are not used)
// ---------------------------------------------------------------------------
fn prf(secret: &[u8], label: &[u8], seed: &[u8], n: usize) -> Vec<u8> {
    let mut ls = label.to_vec();
    ls.extend_from_slice(seed);
    let proto = <Hmac<Sha256> as hmac::digest::KeyInit>::new_from_slice(secret).expect("hmac key");
    let mut a = ls.clone();
    let mut out = Vec::new();
    while out.len() < n {
        let mut m = proto.clone();
        m.update(&a);
        a = m.finalize().into_bytes().to_vec();
        let mut m = proto.clone();
        m.update(&a);
        m.update(&ls);
        out.extend_from_slice(&m.finalize().into_bytes());
    }
    out.truncate(n);
    out
}
fn sha256(d: &[u8]) -> Vec<u8> {
    let mut h = Sha256::new();
    h.update(d);
    h.finalize().to_vec()
}
fn u24(n: usize) -> [u8; 3] {
    let b = (n as u32).to_be_bytes();
    [b[1], b[2], b[3]]
}
fn hs_msg(ty: u8, seq: u16, body: &[u8]) -> Vec<u8> {
    let mut m = vec![ty];
    m.extend_from_slice(&u24(body.len()));
    m.extend_from_slice(&seq.to_be_bytes());
    m.extend_from_slice(&[0, 0, 0]);
    m.extend_from_slice(&u24(body.len()));
    m.extend_from_slice(body);
    m
}
fn record(ct: u8, epoch: u16, seq: u64, body: &[u8]) -> Vec<u8> {
    let mut d = vec![ct, 0xfe, 0xfd];
    d.extend_from_slice(&epoch.to_be_bytes());
    d.extend_from_slice(&seq.to_be_bytes()[2..]);
    d.extend_from_slice(&(body.len() as u16).to_be_bytes());
    d.extend_from_slice(body);
    d
}
/// complete, unfragmented handshake messages of one plaintext handshake record: (type, message_seq, raw incl. header)
fn hs_messages(body: &[u8]) -> Vec<(u8, u16, Vec<u8>)> {
    let mut out = Vec::new();
    let mut off = 0;
    while off + 12 <= body.len() {
        let ty = body[off];
        let total = u32::from_be_bytes([0, body[off + 1], body[off + 2], body[off + 3]]) as usize;
        let seq = u16::from_be_bytes([body[off + 4], body[off + 5]]);
        let foff = u32::from_be_bytes([0, body[off + 6], body[off + 7], body[off + 8]]) as usize;
        let flen = u32::from_be_bytes([0, body[off + 9], body[off + 10], body[off + 11]]) as usize;
        if off + 12 + flen > body.len() {
            break;
        }
        if foff == 0 && flen == total {
            out.push((ty, seq, body[off..off + 12 + flen].to_vec()));
        }
        off += 12 + flen;
    }
    out
}
/// (random, has extended_master_secret extension) of a ServerHello body
fn parse_server_hello(body: &[u8]) -> Option<(Vec<u8>, bool)> {
    if body.len() < 35 {
        return None;
    }
    let random = body[2..34].to_vec();
    let sid = body[34] as usize;
    let mut off = 35 + sid + 3;
    if off + 2 > body.len() {
        return Some((random, false));
    }
    let el = u16::from_be_bytes([body[off], body[off + 1]]) as usize;
    off += 2;
    let end = (off + el).min(body.len());
    let mut ems = false;
    while off + 4 <= end {
        let ty = u16::from_be_bytes([body[off], body[off + 1]]);
        let l = u16::from_be_bytes([body[off + 2], body[off + 3]]) as usize;
        if ty == 23 {
            ems = true;
        }
        off += 4 + l;
    }
    Some((random, ems))
}
/// cookie length of a ClientHello body (0 = none)
fn client_hello_cookie_len(body: &[u8]) -> usize {
    if body.len() < 35 {
        return 0;
    }
    let sid = body[34] as usize;
    body.get(35 + sid).copied().unwrap_or(0) as usize
}

#[derive(Clone)]
struct Keys {
    master: Vec<u8>,
    cwk: Vec<u8>,
    swk: Vec<u8>,
    civ: Vec<u8>,
    siv: Vec<u8>,
}
fn expand(master: &[u8], cr: &[u8], sr: &[u8]) -> Keys {
    let kb = prf(master, b"key expansion", &[sr, cr].concat(), 40);
    Keys { master: master.to_vec(), cwk: kb[0..16].to_vec(), swk: kb[16..32].to_vec(), civ: kb[32..36].to_vec(), siv: kb[36..40].to_vec() }
}

// ---------------------------------------------------------------------------
// what the attacker task reports to the oracle
// ---------------------------------------------------------------------------
#[derive(Default)]
struct MitmOut {
    /// M's keys open the client's Finished: M holds the master secret of A's session
    knows_master: bool,
    /// which premaster candidate worked ("ecdh" / "zero")
    knows_via: String,
    /// virtual ms at which a Finished record produced by B was first put on the wire towards A
    b_fin_relayed_at: Option<u64>,
    /// payloads M originated towards A (any protection)
    injected: Vec<Vec<u8>>,
    /// plaintexts of A's application records M could open
    read_from_a: Vec<Vec<u8>>,
    sent_to_a: u64,
    a_flight2: bool,
    own_fin_valid_sent: bool,
    script_done: bool,
}

struct Mitm {
    sock: Arc<vh::UdpSocket>,
    a_addr: SocketAddr,
    b_addr: SocketAddr,
    sh: SharedRef,
    a_dtls: Arc<DtlsTransport>,
    out: Arc<Mutex<MitmOut>>,
    rng: Rng,
    pack: i64,
    cert_m: usize,
    cert_b: usize,
    // captured from A
    ch_body: Option<Vec<u8>>,
    client_random: Vec<u8>,
    cke_raw: Option<Vec<u8>>,
    client_fin_rec: Option<Vec<u8>>,
    flight2: Vec<Vec<u8>>,
    // captured from B
    b_msgs: BTreeMap<u8, Vec<u8>>,
    b_ccs: Option<Vec<u8>>,
    b_fin: Option<Vec<u8>>,
    // model of the client's handshake state
    model_recv: u16,
    post_hvr: bool,
    ch_pending: bool,
    transcript: Vec<u8>,
    ems: bool,
    server_random: Option<Vec<u8>>,
    // own secrets
    m_secret: p256::SecretKey,
    m_pub: Vec<u8>,
    sign_key: SigningKey,
    keys: Option<Keys>,
    known: bool,
    zero_keys: Option<Keys>,
    junk_keys: Keys,
    seq0: u64,
    seq1: u64,
    // output staging
    log_to_a: Vec<Vec<u8>>,
    pend_dgram: Vec<u8>,
    pend_hs: Vec<u8>,
    retrans_left: u32,
    transparent: bool,
    relay_app: bool,
    forwarded_flight2: bool,
    app_ctr: u32,
    first_fail_noted: bool,
    last_item: String,
}

impl Mitm {
    fn now_ms(&self) -> u64 {
        self.sh.lock().unwrap().now_ms() as u64
    }
    fn ev(&self, sem: &str, detail: &str) {
        self.sh.lock().unwrap().event(sem, detail);
    }
    fn stat(&self, k: &str) {
        self.sh.lock().unwrap().stat(k, 1);
    }
    async fn to_a(&mut self, d: Vec<u8>) {
        let _ = self.sock.send_to(&d, self.a_addr).await;
        self.out.lock().unwrap().sent_to_a += 1;
        self.log_to_a.push(d);
    }
    async fn to_b(&mut self, d: &[u8]) {
        let _ = self.sock.send_to(d, self.b_addr).await;
    }

    // ---- staging: pack 0 = one record per datagram, 1 = all records of a flight in one datagram,
    //      2 = additionally consecutive plaintext handshake messages share one record
    fn close_hs_record(&mut self) {
        if !self.pend_hs.is_empty() {
            let body = std::mem::take(&mut self.pend_hs);
            let r = record(22, 0, self.seq0, &body);
            self.seq0 += 1;
            self.pend_dgram.extend_from_slice(&r);
        }
    }
    async fn flush(&mut self) {
        self.close_hs_record();
        if !self.pend_dgram.is_empty() {
            let d = std::mem::take(&mut self.pend_dgram);
            self.to_a(d).await;
        }
    }
    async fn emit_record(&mut self, rec: Vec<u8>) {
        if self.pack == 0 {
            self.to_a(rec).await;
        } else {
            self.close_hs_record();
            if self.pend_dgram.len() + rec.len() > 1400 {
                self.flush().await;
            }
            self.pend_dgram.extend_from_slice(&rec);
        }
    }
    /// a plaintext (epoch 0) handshake message towards A; updates M's model of the client
    async fn emit_hs(&mut self, msg: Vec<u8>) {
        self.model_accept(&msg);
        if self.pack == 2 {
            if self.pend_hs.len() + msg.len() > 1300 {
                self.close_hs_record();
            }
            if self.pend_dgram.len() + self.pend_hs.len() + msg.len() > 1350 {
                self.flush().await;
            }
            self.pend_hs.extend_from_slice(&msg);
        } else {
            let r = record(22, 0, self.seq0, &msg);
            self.seq0 += 1;
            self.emit_record(r).await;
        }
    }
    /// what the unmodified client does with a complete handshake message: processed iff its message_seq is the
    /// expected one (or any, right after a HelloVerifyRequest); processed messages other than Finished /
    /// HelloRequest / HelloVerifyRequest enter the transcript
    fn model_accept(&mut self, msg: &[u8]) -> bool {
        let ty = msg[0];
        let seq = u16::from_be_bytes([msg[4], msg[5]]);
        if seq != self.model_recv {
            if self.post_hvr {
                self.model_recv = seq;
            } else {
                return false;
            }
        }
        self.post_hvr = false;
        self.model_recv = self.model_recv.wrapping_add(1);
        if ty != 20 && ty != 0 && ty != 3 {
            self.transcript.extend_from_slice(msg);
        }
        match ty {
            2 => {
                if let Some((r, ems)) = parse_server_hello(&msg[12..]) {
                    self.server_random = Some(r);
                    self.ems |= ems;
                }
            }
            3 => {
                // the client forgets its transcript and answers with a new ClientHello (same random, cookie)
                self.transcript.clear();
                self.ch_pending = true;
                self.post_hvr = true;
            }
            _ => {}
        }
        true
    }
    fn pick_seq(&self, ty: u8, mode: i64) -> u16 {
        match mode {
            1 => match ty {
                T_SH => 0,
                T_CERT => 1,
                T_SKE => 2,
                T_SHD => 3,
                _ => self.model_recv,
            },
            2 => self.model_recv.wrapping_add(1),
            3 => self.model_recv.wrapping_sub(1),
            _ => self.model_recv,
        }
    }

    // ---- own message bodies ------------------------------------------------
    fn rnd(&mut self, n: usize) -> Vec<u8> {
        let mut v = vec![0u8; n];
        self.rng.fill(&mut v);
        v
    }
    fn own_sh(&mut self, variant: i64) -> Vec<u8> {
        let genuine = self.b_msgs.get(&T_SH).map(|m| m[12..].to_vec());
        match (variant, genuine) {
            (0, Some(mut b)) if b.len() >= 34 => {
                let r = self.rnd(32);
                b[2..34].copy_from_slice(&r);
                b
            }
            (1, Some(b)) if b.len() >= 35 => {
                // B's ServerHello without the extended_master_secret extension
                let sid = b[34] as usize;
                let eoff = 35 + sid + 3;
                let mut out = b[..eoff.min(b.len())].to_vec();
                let mut exts = Vec::new();
                if eoff + 2 <= b.len() {
                    let mut off = eoff + 2;
                    while off + 4 <= b.len() {
                        let ty = u16::from_be_bytes([b[off], b[off + 1]]);
                        let l = u16::from_be_bytes([b[off + 2], b[off + 3]]) as usize;
                        if ty != 23 {
                            exts.extend_from_slice(&b[off..(off + 4 + l).min(b.len())]);
                        }
                        off += 4 + l;
                    }
                }
                out.extend_from_slice(&(exts.len() as u16).to_be_bytes());
                out.extend_from_slice(&exts);
                out
            }
            _ => {
                let mut b = vec![0xfe, 0xfd];
                b.extend_from_slice(&self.rnd(32));
                b.push(32);
                b.extend_from_slice(&self.rnd(32));
                b.extend_from_slice(&[0xc0, 0x2b, 0]);
                let exts: &[u8] = &[0, 0x0b, 0, 2, 1, 0, 0xff, 1, 0, 1, 0, 0, 0x17, 0, 0, 0, 0x0e, 0, 5, 0, 2, 0, 1, 0];
                b.extend_from_slice(&(exts.len() as u16).to_be_bytes());
                b.extend_from_slice(exts);
                b
            }
        }
    }
    fn own_cert(&mut self, variant: i64) -> Vec<u8> {
        let own = cert_der(self.cert_m);
        let theirs = cert_der(self.cert_b);
        let list: Vec<&Vec<u8>> = match variant {
            1 => vec![&theirs],
            2 => vec![&theirs, &own],
            3 => vec![&own, &theirs],
            4 => vec![],
            _ => vec![&own],
        };
        let mut l = Vec::new();
        for c in list {
            l.extend_from_slice(&u24(c.len()));
            l.extend_from_slice(c);
        }
        let mut b = u24(l.len()).to_vec();
        b.extend_from_slice(&l);
        b
    }
    fn own_ske(&mut self, variant: i64) -> Vec<u8> {
        let genuine = self.b_msgs.get(&T_SKE).map(|m| m[12..].to_vec());
        // genuine share and signature, if B's message is available
        let (b_share, b_sig) = match &genuine {
            Some(g) if g.len() > 4 && g.len() >= 4 + g[3] as usize + 4 => {
                let pl = g[3] as usize;
                let so = 4 + pl + 2;
                let sl = u16::from_be_bytes([g[so], g[so + 1]]) as usize;
                (Some(g[4..4 + pl].to_vec()), Some(g[so + 2..(so + 2 + sl).min(g.len())].to_vec()))
            }
            _ => (None, None),
        };
        let share = if variant == 4 { b_share.clone().unwrap_or_else(|| self.m_pub.clone()) } else { self.m_pub.clone() };
        let mut params = vec![3u8, 0, 23, share.len() as u8];
        params.extend_from_slice(&share);
        let mut signed = self.client_random.clone();
        signed.extend_from_slice(&self.server_random.clone().unwrap_or_else(|| vec![0u8; 32]));
        signed.extend_from_slice(&params);
        let sig: Vec<u8> = match variant {
            1 => {
                // well-formed DER signature that verifies under no key for these parameters
                let junk = self.rnd(40);
                let s: Signature = self.sign_key.sign(&junk);
                s.to_der().as_bytes().to_vec()
            }
            2 => b_sig.unwrap_or_default(),
            3 => Vec::new(),
            _ => {
                let s: Signature = self.sign_key.sign(&signed);
                s.to_der().as_bytes().to_vec()
            }
        };
        let mut b = params;
        b.extend_from_slice(&[4, 3]);
        b.extend_from_slice(&(sig.len() as u16).to_be_bytes());
        b.extend_from_slice(&sig);
        b
    }
    fn best_keys(&self) -> Keys {
        self.keys.clone().unwrap_or_else(|| self.junk_keys.clone())
    }

    // ---- receive side ------------------------------------------------------
    async fn handle(&mut self, d: Vec<u8>, from: SocketAddr) {
        let from_a = from.ip() == self.a_addr.ip();
        let from_b = from.ip() == self.b_addr.ip();
        if !from_a && !from_b {
            return;
        }
        if self.transparent {
            if from_a {
                self.to_b(&d).await;
            } else {
                if dtls_records(&d).iter().any(|r| r.ct == 22 && r.epoch >= 1) {
                    let now = self.now_ms();
                    self.out.lock().unwrap().b_fin_relayed_at.get_or_insert(now);
                }
                self.to_a(d.clone()).await;
            }
        }
        let recs: Vec<(u8, u16, Vec<u8>, Vec<u8>)> = dtls_records(&d).iter().map(|r| (r.ct, r.epoch, r.body.to_vec(), [r.header, r.body].concat())).collect();
        let mut flight2_dgram = false;
        let mut dup_ch = false;
        let mut dup_flight2 = false;
        for (ct, epoch, body, full) in recs {
            if from_a {
                match (ct, epoch) {
                    (22, 0) => {
                        for (ty, _seq, raw) in hs_messages(&body) {
                            if ty == 1 {
                                let cookie = client_hello_cookie_len(&raw[12..]);
                                if self.ch_body.is_none() {
                                    self.client_random = raw[14..46].to_vec();
                                    self.ch_body = Some(raw[12..].to_vec());
                                    self.transcript = raw.clone();
                                    if !self.transparent {
                                        self.to_b(&d).await;
                                    }
                                } else if self.ch_pending && cookie > 0 {
                                    // the ClientHello that answers M's HelloVerifyRequest opens the client's new transcript
                                    self.ch_pending = false;
                                    let mut t = raw.clone();
                                    t.extend_from_slice(&self.transcript);
                                    self.transcript = t;
                                    self.stat("probe.mitm.hvr_answered");
                                } else {
                                    dup_ch = true;
                                }
                            } else if ty == 16 {
                                if self.cke_raw.is_none() {
                                    self.cke_raw = Some(raw);
                                }
                                flight2_dgram = true;
                            }
                        }
                    }
                    (20, _) => flight2_dgram = true,
                    (22, _) => {
                        if self.client_fin_rec.is_none() {
                            self.client_fin_rec = Some(full);
                        } else {
                            dup_flight2 = true;
                        }
                        flight2_dgram = true;
                    }
                    (23, e) if e >= 1 => {
                        if self.known {
                            if let Some(k) = &self.keys {
                                let rr = dtls_records(&full);
                                if let Some(p) = rr.first().and_then(|r| open_record(&k.cwk, &k.civ, r)) {
                                    self.out.lock().unwrap().read_from_a.push(p);
                                    self.stat("probe.mitm.m_read_client_app");
                                }
                            }
                        }
                        if self.relay_app && !self.transparent {
                            self.to_b(&full).await;
                        }
                    }
                    _ => {}
                }
            } else {
                match (ct, epoch) {
                    (22, 0) => {
                        for (ty, _seq, raw) in hs_messages(&body) {
                            self.b_msgs.entry(ty).or_insert(raw);
                        }
                    }
                    (20, _) => {
                        self.b_ccs.get_or_insert(full);
                    }
                    (22, _) => {
                        self.b_fin.get_or_insert(full);
                    }
                    (23, e) if e >= 1 => {
                        if self.relay_app && !self.transparent {
                            self.to_a(full).await;
                        }
                    }
                    _ => {}
                }
            }
        }
        if flight2_dgram && !self.flight2.contains(&d) {
            self.flight2.push(d.clone());
        }
        if self.transparent {
            return;
        }
        if dup_ch {
            // the client did not get (all of) M's flight: B is asked again while its flight is incomplete, and M
            // repeats what it has sent so far, like a server retransmitting its flight
            if self.b_msgs.len() < 4 {
                self.to_b(&d).await;
            }
            if self.retrans_left > 0 && self.cke_raw.is_none() && !self.log_to_a.is_empty() {
                self.retrans_left -= 1;
                self.stat("probe.mitm.m_retransmitted_flight");
                let log = self.log_to_a.clone();
                for x in log {
                    let _ = self.sock.send_to(&x, self.a_addr).await;
                }
            }
        }
        if dup_flight2 && self.forwarded_flight2 {
            // retransmitted second flight of the client: B answers it by repeating its final flight
            self.to_b(&d).await;
        }
    }

    async fn pump(&mut self, ms: u64, stop: impl Fn(&Mitm) -> bool) {
        let until = tokio::time::Instant::now() + Duration::from_millis(ms);
        let mut buf = vec![0u8; 2048];
        loop {
            if stop(self) {
                return;
            }
            match tokio::time::timeout_at(until, self.sock.recv_from(&mut buf)).await {
                Ok(Ok((n, from))) => {
                    let d = buf[..n].to_vec();
                    self.handle(d, from).await;
                }
                _ => return,
            }
        }
    }

    fn note_victim_state(&mut self, before: &str) {
        let st = dtls_state_name(&self.a_dtls);
        self.stat(&format!("mitm.sent_while.{st}"));
        if st == "Failed" && !self.first_fail_noted {
            self.first_fail_noted = true;
            let k = format!("probe.mitm.failed_after.{}", self.last_item);
            self.stat(&k);
        }
        self.last_item = before.to_string();
    }

    /// try to obtain the client's session keys from what M knows; true when they open the client's Finished
    fn derive(&mut self) {
        let (Some(cke), Some(fin)) = (self.cke_raw.clone(), self.client_fin_rec.clone()) else { return };
        let body = &cke[12..];
        if body.is_empty() || body.len() < 1 + body[0] as usize {
            return;
        }
        let client_pub = &body[1..1 + body[0] as usize];
        let mut t = self.transcript.clone();
        t.extend_from_slice(&cke);
        let sr = self.server_random.clone().unwrap_or_else(|| vec![0u8; 32]);
        let cr = self.client_random.clone();
        let mut cands: Vec<(&str, Vec<u8>)> = Vec::new();
        if let Ok(pk) = p256::PublicKey::from_sec1_bytes(client_pub) {
            let ss = p256::ecdh::diffie_hellman(self.m_secret.to_nonzero_scalar(), pk.as_affine());
            cands.push(("ecdh", ss.raw_secret_bytes().to_vec()));
        }
        cands.push(("zero", vec![0u8; 32]));
        let recs = dtls_records(&fin);
        let Some(fr) = recs.first() else { return };
        for (name, pm) in cands {
            // the client's extended-master-secret flag and server random follow M's model; try the alternatives too
            for ems in [self.ems, !self.ems] {
                let master = if ems { prf(&pm, b"extended master secret", &sha256(&t), 48) } else { prf(&pm, b"master secret", &[cr.as_slice(), sr.as_slice()].concat(), 48) };
                let k = expand(&master, &cr, &sr);
                if name == "zero" && ems == self.ems {
                    self.zero_keys = Some(k.clone());
                }
                if let Some(plain) = open_record(&k.cwk, &k.civ, fr) {
                    self.known = true;
                    self.keys = Some(k.clone());
                    {
                        let mut o = self.out.lock().unwrap();
                        o.knows_master = true;
                        o.knows_via = name.to_string();
                    }
                    self.stat("probe.mitm.m_knows_master");
                    self.stat(&format!("probe.mitm.m_knows_master_via_{name}"));
                    // does M's transcript model agree with the client's Finished?
                    let want = prf(&master, b"client finished", &sha256(&t), 12);
                    let ok = plain.len() >= 24 && plain[12..24] == want[..];
                    self.stat(if ok { "probe.mitm.model_ok" } else { "probe.mitm.model_off" });
                    self.transcript = t.clone();
                    self.transcript.extend_from_slice(&plain);
                    return;
                }
            }
        }
        self.transcript = t;
    }

    async fn own_finished(&mut self, variant: i64) {
        let k = match variant {
            2 => self.zero_keys.clone().unwrap_or_else(|| self.junk_keys.clone()),
            _ => self.best_keys(),
        };
        let valid = self.known && variant == 0;
        let vd = if valid || variant == 2 { prf(&k.master, b"server finished", &sha256(&self.transcript), 12) } else { self.rnd(12) };
        let seq = self.model_recv;
        let msg = hs_msg(20, seq, &vd);
        self.model_accept(&msg);
        let r = seal_record(&k.swk, &k.siv, 22, 1, self.seq1, &msg);
        self.seq1 += 1;
        if valid {
            self.out.lock().unwrap().own_fin_valid_sent = true;
            self.stat("probe.mitm.own_fin_valid_sent");
        } else {
            self.stat("probe.mitm.own_fin_garbage_sent");
        }
        self.emit_record(r).await;
    }
    async fn own_app(&mut self, variant: i64) {
        self.app_ctr += 1;
        let p = format!("injected-by-M-{}", self.app_ctr).into_bytes();
        self.out.lock().unwrap().injected.push(p.clone());
        let r = match variant {
            1 => {
                let r = record(23, 0, self.seq0, &p);
                self.seq0 += 1;
                r
            }
            2 => {
                let k = self.zero_keys.clone().unwrap_or_else(|| self.junk_keys.clone());
                let r = seal_record(&k.swk, &k.siv, 23, 1, self.seq1, &p);
                self.seq1 += 1;
                r
            }
            _ => {
                let k = self.best_keys();
                let r = seal_record(&k.swk, &k.siv, 23, 1, self.seq1, &p);
                self.seq1 += 1;
                r
            }
        };
        self.emit_record(r).await;
    }

    async fn run_item(&mut self, op: &Op, wait_ms: u64) {
        let label = format!("{}:{}", op.kind, op.s);
        match op.kind.as_str() {
            "relay" => {
                let ty = match op.s.as_str() {
                    "sh" => T_SH,
                    "cert" => T_CERT,
                    "ske" => T_SKE,
                    "shd" => T_SHD,
                    _ => 0,
                };
                if ty != 0 {
                    match self.b_msgs.get(&ty).cloned() {
                        Some(raw) => {
                            let seq = self.pick_seq(ty, op.arg(0));
                            self.note_victim_state(&label);
                            self.ev(&format!("M item relay {} seqmode={}", op.s, op.arg(0)), &format!("seq={seq}"));
                            self.emit_hs(hs_msg(ty, seq, &raw[12..])).await;
                        }
                        None => self.stat("mitm.relay_unavailable"),
                    }
                } else {
                    let rec = if op.s == "ccs" { self.b_ccs.clone() } else { self.b_fin.clone() };
                    match rec {
                        Some(r) => {
                            self.note_victim_state(&label);
                            self.ev(&format!("M item relay {}", op.s), "");
                            if op.s == "fin" {
                                let now = self.now_ms();
                                self.out.lock().unwrap().b_fin_relayed_at.get_or_insert(now);
                            }
                            self.emit_record(r).await;
                        }
                        None => self.stat("mitm.relay_unavailable"),
                    }
                }
            }
            "own" => {
                let v = op.arg(1);
                let (ty, body): (u8, Vec<u8>) = match op.s.as_str() {
                    "sh" => (T_SH, self.own_sh(v)),
                    "cert" => (T_CERT, self.own_cert(v)),
                    "ske" => (T_SKE, self.own_ske(v)),
                    "shd" => (T_SHD, Vec::new()),
                    "hvr" => {
                        let mut b = vec![0xfe, 0xfd, 20];
                        b.extend_from_slice(&self.rnd(20));
                        (3, b)
                    }
                    "ch" => (1, self.ch_body.clone().unwrap_or_default()),
                    "cke" => {
                        let mut b = vec![self.m_pub.len() as u8];
                        b.extend_from_slice(&self.m_pub);
                        (16, b)
                    }
                    "creq" => (13, vec![1, 64, 0, 2, 4, 3, 0, 0]),
                    "hreq" => (0, Vec::new()),
                    "cver" => {
                        let mut b = vec![4, 3, 0, 70];
                        b.extend_from_slice(&self.rnd(70));
                        (15, b)
                    }
                    // a Finished in clear (epoch 0)
                    _ => (20, self.rnd(12)),
                };
                let seq = self.pick_seq(ty, op.arg(0));
                self.note_victim_state(&label);
                self.ev(&format!("M item own {} v{} seqmode={}", op.s, v, op.arg(0)), &format!("seq={seq}"));
                self.emit_hs(hs_msg(ty, seq, &body)).await;
            }
            "ccs" => {
                self.note_victim_state(&label);
                self.ev("M item ccs", "");
                let r = record(20, 0, self.seq0, &[1]);
                self.seq0 += 1;
                self.emit_record(r).await;
            }
            "fin" => {
                self.note_victim_state(&label);
                self.ev(&format!("M item fin v{} known={}", op.arg(0), self.known), "");
                self.own_finished(op.arg(0)).await;
            }
            "app" => {
                self.note_victim_state(&label);
                self.ev(&format!("M item app v{}", op.arg(0)), "");
                self.own_app(op.arg(0)).await;
            }
            "wait" => {
                self.flush().await;
                self.ev(&format!("M item wait mode={}", op.arg(0)), "");
                self.pump(wait_ms, |m| m.cke_raw.is_some() && m.client_fin_rec.is_some()).await;
                self.note_victim_state(&label);
                if self.cke_raw.is_none() || self.client_fin_rec.is_none() {
                    self.stat("probe.mitm.no_flight2");
                    return;
                }
                self.out.lock().unwrap().a_flight2 = true;
                self.stat("probe.mitm.a_flight2");
                self.derive();
                self.ev(&format!("M derived known={}", self.known), "");
                match op.arg(0) {
                    0 if self.known => {
                        let r = record(20, 0, self.seq0, &[1]);
                        self.seq0 += 1;
                        self.emit_record(r).await;
                        self.own_finished(0).await;
                        self.flush().await;
                        self.pump(20, |_| false).await;
                        self.own_app(0).await;
                        self.flush().await;
                    }
                    0 | 1 => {
                        self.forwarded_flight2 = true;
                        let f2 = self.flight2.clone();
                        for d in f2 {
                            self.to_b(&d).await;
                        }
                        self.pump(wait_ms, |m| m.b_fin.is_some()).await;
                        if self.b_fin.is_some() {
                            self.stat("probe.mitm.b_answered_flight2");
                        }
                        if op.arg(0) == 0 {
                            if let (Some(c), Some(f)) = (self.b_ccs.clone(), self.b_fin.clone()) {
                                let now = self.now_ms();
                                self.out.lock().unwrap().b_fin_relayed_at.get_or_insert(now);
                                self.emit_record(c).await;
                                self.emit_record(f).await;
                                self.flush().await;
                            }
                            self.transparent = true;
                        } else {
                            self.relay_app = true;
                        }
                    }
                    _ => {}
                }
            }
            "forward" => {
                self.flush().await;
                self.ev("M item forward", "");
                self.transparent = true;
            }
            _ => {}
        }
    }

    async fn run(mut self, ops: Vec<Op>, wait_ms: u64) {
        // the live ClientHello, relayed to B; then B's first flight
        self.pump(DEADLINE_MS, |m| m.ch_body.is_some()).await;
        let needs_b = ops.iter().any(|o| o.kind == "relay" || (o.kind == "own" && (o.s == "sh" || o.s == "ske")) || o.kind == "wait");
        if needs_b && !ops.first().map(|o| o.kind == "forward").unwrap_or(false) {
            self.pump(wait_ms.max(3000), |m| m.b_msgs.len() >= 4).await;
            if self.b_msgs.len() < 4 {
                self.stat("probe.mitm.b_flight_incomplete");
            }
        }
        for op in ops.iter() {
            if op.kind == "name" {
                continue;
            }
            if op.at_ms > 0 {
                if self.pack == 0 {
                    self.pump(op.at_ms, |_| false).await;
                }
            }
            self.run_item(op, wait_ms).await;
        }
        self.flush().await;
        self.note_victim_state("end");
        self.out.lock().unwrap().script_done = true;
        self.ev("M script done", "");
        loop {
            self.pump(3_600_000, |_| false).await;
        }
    }
}

fn keys_of(t: &DtlsTransport) -> Option<Vec<u8>> {
    if let DtlsState::Connected(c, _) = t.get_state() { Some(c.keys.master_secret.clone()) } else { None }
}

pub async fn run(ctx: &Ctx) {
    let plan = &ctx.plan;
    let cert_a = plan.knob("cert_a", 0) as usize;
    let cert_b = plan.knob("cert_b", 1) as usize;
    let cert_m = plan.knob("cert_m", 2) as usize;
    // ctl: 0 attack run, 1 pure forwarder, 2 M under its own identity (A expects M's certificate), 3 honest script
    let ctl = plan.knob("ctl", 0);
    let expected = if ctl == 2 { fp_of(&cert_der(cert_m)) } else { fp_of(&cert_der(cert_b)) };
    let wait_ms = plan.knob("wait_ms", 1500).max(10) as u64;

    ctx.net.set_monitor(Box::new(crate::monitor::StdMonitor::new(ctx.keys.clone())));
    // both genuine endpoints only know M's address
    let mut ea = layer_ep(ctx, "A", "M", true, cert_a, Some(expected)).await;
    let mut eb = layer_ep(ctx, "B", "M", false, cert_b, None).await;
    let dt = [ea.dtls.clone(), eb.dtls.clone()];
    let names = ["A", "B"];

    let out = Arc::new(Mutex::new(MitmOut::default()));
    let m_task = {
        let sock = Arc::new(vh::UdpSocket::from_sim(ctx.net.bind(addr("M", 5000)).expect("bind M")));
        let mut rng = Rng::new(mix(plan.seed, 0x4d49544d));
        let m_secret = loop {
            let mut b = [0u8; 32];
            rng.fill(&mut b);
            if let Ok(k) = p256::SecretKey::from_slice(&b) {
                break k;
            }
        };
        let m_pub = m_secret.public_key().to_encoded_point(false).as_bytes().to_vec();
        let sign_key = SigningKey::from_pkcs8_pem(&crate::sim::cert(cert_m).private_key).expect("pool key");
        let mut jm = vec![0u8; 48];
        rng.fill(&mut jm);
        let junk_keys = expand(&jm, &[1u8; 32], &[2u8; 32]);
        let m = Mitm {
            sock,
            a_addr: addr("A", 5000),
            b_addr: addr("B", 5000),
            sh: ctx.sh.clone(),
            a_dtls: dt[0].clone(),
            out: out.clone(),
            rng,
            pack: plan.knob("pack", 0),
            cert_m,
            cert_b,
            ch_body: None,
            client_random: vec![0u8; 32],
            cke_raw: None,
            client_fin_rec: None,
            flight2: Vec::new(),
            b_msgs: BTreeMap::new(),
            b_ccs: None,
            b_fin: None,
            model_recv: 0,
            post_hvr: false,
            ch_pending: false,
            transcript: Vec::new(),
            ems: false,
            server_random: None,
            m_secret,
            m_pub,
            sign_key,
            keys: None,
            known: false,
            zero_keys: None,
            junk_keys,
            seq0: 0,
            seq1: 0,
            log_to_a: Vec::new(),
            pend_dgram: Vec::new(),
            pend_hs: Vec::new(),
            retrans_left: plan.knob("m_retrans", 2).max(0) as u32,
            transparent: false,
            relay_app: false,
            forwarded_flight2: false,
            app_ctr: 0,
            first_fail_noted: false,
            last_item: "start".into(),
        };
        tokio::spawn(vh::wrap_task(m.run(plan.ops.clone(), wait_ms)))
    };

    // upper-layer receivers
    let got: Arc<Mutex<[Vec<Vec<u8>>; 2]>> = Arc::new(Mutex::new([Vec::new(), Vec::new()]));
    let mut tasks = Vec::new();
    for (side, ep) in [&mut ea, &mut eb].into_iter().enumerate() {
        let mut rx = ep.incoming.take().unwrap();
        let got = got.clone();
        let sh = ctx.sh.clone();
        tasks.push(tokio::spawn(vh::wrap_task(async move {
            while let Some(b) = rx.recv().await {
                sh.lock().unwrap().event(&format!("app {} data", names[side]), &format!("len={} h={:08x}", b.len(), fnv(FNV0, &b) as u32));
                got.lock().unwrap()[side].push(b.to_vec());
            }
        })));
    }
    // state observers: first Connected (time, master secret) per side
    let first_conn: Arc<Mutex<[Option<(u64, Vec<u8>)>; 2]>> = Arc::new(Mutex::new([None, None]));
    for side in 0..2 {
        let mut rx = dt[side].subscribe_state();
        let sh = ctx.sh.clone();
        let d = dt[side].clone();
        let fc = first_conn.clone();
        tasks.push(tokio::spawn(vh::wrap_task(async move {
            loop {
                let name = dtls_state_name(&d);
                let now = {
                    let mut s = sh.lock().unwrap();
                    s.event(&format!("state {} {}", names[side], name), "");
                    s.now_ms() as u64
                };
                if name == "Connected" {
                    if let Some(ms) = keys_of(&d) {
                        let mut g = fc.lock().unwrap();
                        if g[side].is_none() {
                            g[side] = Some((now, ms));
                        }
                    }
                }
                if rx.changed().await.is_err() {
                    break;
                }
            }
        })));
    }
    // each genuine endpoint sends one payload as soon as it is Connected
    let accepted: Arc<Mutex<[Vec<Vec<u8>>; 2]>> = Arc::new(Mutex::new([Vec::new(), Vec::new()]));
    for side in 0..2 {
        let d = dt[side].clone();
        let sh = ctx.sh.clone();
        let accepted = accepted.clone();
        tasks.push(tokio::spawn(vh::wrap_task(async move {
            let mut rx = d.subscribe_state();
            loop {
                let n = dtls_state_name(&d);
                if n == "Connected" {
                    break;
                }
                if n == "Failed" || n == "Closed" {
                    return;
                }
                if rx.changed().await.is_err() {
                    return;
                }
            }
            let p = payload(side, 0, 100);
            let r = d.send(Bytes::from(p.clone())).await;
            sh.lock().unwrap().event(&format!("api {} send {}", names[side], if r.is_ok() { "ok" } else { "err" }), "");
            if r.is_ok() {
                accepted.lock().unwrap()[side].push(p);
            }
        })));
    }

    // wait for the victim's verdict: Connected (then let data and the rest of the script drain) or Failed, else the deadline
    {
        let mut rx = dt[0].subscribe_state();
        let t0 = ctx.sh.lock().unwrap().t0;
        let end = t0 + Duration::from_millis(DEADLINE_MS + 1500);
        loop {
            let n = dtls_state_name(&dt[0]);
            if n == "Connected" || n == "Failed" || n == "Closed" {
                break;
            }
            if tokio::time::timeout_at(end, rx.changed()).await.is_err() {
                break;
            }
        }
        // the script may still have items to deliver (early Connected) and data is in flight
        let settle_end = tokio::time::Instant::now() + Duration::from_millis(2 * wait_ms + 1500);
        loop {
            let done = out.lock().unwrap().script_done;
            if done || tokio::time::Instant::now() >= settle_end {
                break;
            }
            tokio::time::sleep(Duration::from_millis(25)).await;
        }
        let lat = (plan.latency_us[0] + plan.latency_us[1]) / 1000 + 1;
        tokio::time::sleep(Duration::from_millis(4 * lat + 200)).await;
    }

    let st = [dtls_state_name(&dt[0]), dtls_state_name(&dt[1])];
    ctx.ev(&format!("final A={} B={}", st[0], st[1]), "");
    let fc = first_conn.lock().unwrap().clone();
    let o = out.lock().unwrap();
    let a_conn = fc[0].clone();
    let b_conn = fc[1].clone();
    let b_sent: Vec<Vec<u8>> = accepted.lock().unwrap()[1].clone();
    let a_got: Vec<Vec<u8>> = got.lock().unwrap()[0].clone();
    let b_got: Vec<Vec<u8>> = got.lock().unwrap()[1].clone();
    let fault_free = !plan.has_faults();

    // authentic = A's Connected rests on B: same master secret, and B's own Finished was handed to A before
    let mut why_not = Vec::new();
    if let Some((t_a, ms_a)) = &a_conn {
        match &b_conn {
            Some((_, ms_b)) if ms_b == ms_a => {}
            Some(_) => why_not.push("B is Connected with a different master secret".to_string()),
            None => why_not.push("B, the holder of the fingerprint's key, never completed a handshake".to_string()),
        }
        if o.knows_master {
            why_not.push(format!("the on-path party computed A's master secret (premaster via {}) and its keys open A's records", o.knows_via));
        }
        match o.b_fin_relayed_at {
            Some(t) if t <= *t_a => {}
            _ => why_not.push("no Finished produced by B had been put on the wire towards A when A reported Connected (A accepted the on-path party's Finished)".to_string()),
        }
    }
    let authentic = a_conn.is_some() && why_not.is_empty();

    if ctl == 2 {
        // M is entitled to the identity A expects: the attacker implementation must be a working DTLS server
        let ok = a_conn.is_some() && o.knows_master && o.own_fin_valid_sent && o.injected.iter().all(|p| a_got.contains(p)) && !o.injected.is_empty() && o.read_from_a.contains(&payload(0, 0, 100));
        if !ok && fault_free {
            ctx.violate("HARNESS.mitm-selfcheck", format!("M under its own identity did not complete a handshake and data exchange with A (A state {}, knows_master {}, own Finished sent {}, A got {} payloads, M read {})", st[0], o.knows_master, o.own_fin_valid_sent, a_got.len(), o.read_from_a.len()));
        }
        ctx.stat(if ok { "probe.mitm.selfcheck_ok" } else { "probe.mitm.selfcheck_not_ok" }, 1);
    } else {
        if a_conn.is_some() && !authentic {
            ctx.violate("C02.auth", format!("client A (expects the fingerprint of B's certificate) reached Connected although: {}", why_not.join("; ")));
        }
        for g in a_got.iter() {
            if !b_sent.contains(g) {
                let mine = o.injected.contains(g);
                ctx.violate(
                    "C02.fail-closed",
                    format!("client A handed {} bytes to its upper layer that B never sent{} (first bytes {:02x?})", g.len(), if mine { " - the on-path party's own payload" } else { "" }, &g[..g.len().min(16)]),
                );
            }
        }
        if !authentic {
            if dt[0].export_keying_material("EXTRACTOR-dtls_srtp", 60).is_ok() {
                ctx.violate("C02.fail-closed", "client A exports SRTP keying material although it never completed an authentic handshake with B".into());
            }
            if a_conn.is_none() && st[0] != "Failed" && ctx.now_ms() >= DEADLINE_MS + 1000 {
                ctx.violate("C02.fail-closed", format!("client A never completed an authentic handshake with B but ended in state {} instead of Failed", st[0]));
            }
        }
        if (ctl == 1 || ctl == 3) && fault_free {
            let data_ok = a_got == b_sent && b_sent.len() == 1 && b_got == accepted.lock().unwrap()[0].clone() && b_got.len() == 1;
            if !authentic || !data_ok {
                ctx.violate("HARNESS.mitm-control", format!("honest relay (ctl={ctl}) did not end in an authentic connection with data both ways: A={} B={} authentic={} why_not={:?} a_got={} b_got={}", st[0], st[1], authentic, why_not, a_got.len(), b_got.len()));
            }
        }
        ctx.stat(
            if authentic {
                "probe.mitm.a_connected_authentic"
            } else if a_conn.is_some() {
                "probe.mitm.a_connected_not_authentic"
            } else if ctx.now_ms() >= DEADLINE_MS {
                "probe.mitm.a_failed_at_deadline"
            } else {
                "probe.mitm.a_failed_fast"
            },
            1,
        );
    }
    {
        let mut sh = ctx.sh.lock().unwrap();
        let now = sh.now_ms() as u64;
        sh.stat("virt_ms", now);
        sh.stat("mitm.datagrams_to_A", o.sent_to_a);
        if o.sent_to_a > 0 {
            sh.stat("nontrivial", 1);
        }
        if !o.script_done {
            sh.stat("probe.mitm.script_not_finished", 1);
        }
    }
    drop(o);
    m_task.abort();
    for t in tasks {
        t.abort();
    }
    dt[0].close();
    dt[1].close();
    ea.abort_all();
    eb.abort_all();
    tokio::time::sleep(Duration::from_millis(5)).await;
}

// ---------------------------------------------------------------------------
// script catalogue and generators
// ---------------------------------------------------------------------------
fn it(kind: &str, s: &str, a: &[i64]) -> Op {
    Op { at_ms: 0, kind: kind.into(), a: a.to_vec(), s: s.into() }
}
fn relay(s: &str) -> Op {
    it("relay", s, &[0])
}
fn own(s: &str, v: i64) -> Op {
    it("own", s, &[0, v])
}
fn wait(mode: i64) -> Op {
    it("wait", "", &[mode])
}
fn honest1() -> Vec<Op> {
    vec![relay("sh"), relay("cert"), relay("ske"), relay("shd")]
}
const FLIGHT: [&str; 4] = ["sh", "cert", "ske", "shd"];

pub struct Script {
    pub name: String,
    pub ops: Vec<Op>,
    pub ctl: i64,
    pub pack: i64,
}

/// The enumerated catalogue: every single deviation from the honest flight, the known attack sequences, phase-2
/// deviations, numbering and packing variants.
pub fn catalogue() -> Vec<Script> {
    let mut v: Vec<Script> = Vec::new();
    let mut add = |name: String, ops: Vec<Op>, ctl: i64, pack: i64| v.push(Script { name, ops, ctl, pack });
    let auto = |mut p: Vec<Op>| {
        p.push(wait(0));
        p
    };
    // controls
    add("ctl:forwarder".into(), vec![it("forward", "", &[])], 1, 0);
    add("ctl:honest-script".into(), auto(honest1()), 3, 0);
    add("ctl:honest-script-one-datagram".into(), auto(honest1()), 3, 1);
    add("ctl:honest-script-one-record".into(), auto(honest1()), 3, 2);
    add("ctl:own-identity".into(), auto(vec![own("sh", 2), own("cert", 0), own("ske", 0), own("shd", 0)]), 2, 0);
    add("ctl:own-identity-one-record".into(), auto(vec![own("sh", 2), own("cert", 0), own("ske", 0), own("shd", 0)]), 2, 2);
    // omission of each message
    for i in 0..4 {
        let mut p = honest1();
        p.remove(i);
        add(format!("omit:{}", FLIGHT[i]), auto(p), 0, 0);
    }
    // adjacent swaps and two rotations
    for i in 0..3 {
        let mut p = honest1();
        p.swap(i, i + 1);
        add(format!("swap:{}<->{}", FLIGHT[i], FLIGHT[i + 1]), auto(p), 0, 0);
    }
    add("order:ske-first".into(), auto(vec![relay("ske"), relay("sh"), relay("cert"), relay("shd")]), 0, 0);
    add("order:shd-first".into(), auto(vec![relay("shd"), relay("sh"), relay("cert"), relay("ske"), relay("shd")]), 0, 0);
    add("order:reversed".into(), auto(vec![relay("shd"), relay("ske"), relay("cert"), relay("sh")]), 0, 0);
    // own variants per type
    let variants: [(&str, &[i64]); 4] = [("sh", &[0, 1, 2]), ("cert", &[0, 1, 2, 3, 4]), ("ske", &[0, 1, 2, 3, 4]), ("shd", &[0])];
    for (i, (t, vs)) in variants.iter().enumerate() {
        for &x in vs.iter() {
            // replacement
            let mut p = honest1();
            p[i] = own(t, x);
            add(format!("replace:{t}:own-v{x}"), auto(p), 0, 0);
            // own after the genuine one (changed content under the next message_seq)
            let mut p = honest1();
            p.insert(i + 1, own(t, x));
            add(format!("after-genuine:{t}:own-v{x}"), auto(p), 0, 0);
            // own before the genuine one
            let mut p = honest1();
            p.insert(i, own(t, x));
            add(format!("before-genuine:{t}:own-v{x}"), auto(p), 0, 0);
        }
        // exact duplicate under the next message_seq
        let mut p = honest1();
        p.insert(i + 1, relay(t));
        add(format!("dup:{t}"), auto(p), 0, 0);
        // own content under the SAME message_seq as the genuine one (after it), and under a skipped number
        let mut p = honest1();
        p.insert(i + 1, it("own", t, &[3, 0]));
        add(format!("same-seq-after:{t}"), auto(p), 0, 0);
        let mut p = honest1();
        p.insert(i + 1, it("own", t, &[2, 0]));
        add(format!("gap-seq-after:{t}"), auto(p), 0, 0);
    }
    // the known attack shapes, with the attacker finishing the handshake itself
    add("attack:genuine-ske-then-own-ske-at-end".into(), auto(vec![relay("sh"), relay("cert"), relay("ske"), own("ske", 0), own("shd", 0)]), 0, 0);
    add("attack:genuine-cert-own-cert-own-ske".into(), auto(vec![relay("sh"), relay("cert"), own("cert", 0), own("ske", 0), relay("shd")]), 0, 0);
    add("attack:genuine-cert-ske-own-cert-own-ske".into(), auto(vec![relay("sh"), relay("cert"), relay("ske"), own("cert", 0), own("ske", 0), relay("shd")]), 0, 0);
    add("attack:own-cert-own-ske-then-genuine-cert".into(), auto(vec![relay("sh"), own("cert", 0), own("ske", 0), relay("cert"), relay("shd")]), 0, 0);
    add("attack:list-b-own+own-ske".into(), auto(vec![relay("sh"), own("cert", 2), own("ske", 0), relay("shd")]), 0, 0);
    add("attack:list-own-b+own-ske".into(), auto(vec![relay("sh"), own("cert", 3), own("ske", 0), relay("shd")]), 0, 0);
    add("attack:own-sh-genuine-cert-own-ske".into(), auto(vec![own("sh", 2), relay("cert"), own("ske", 0), own("shd", 0)]), 0, 0);
    add("attack:own-ske-twice-around-genuine".into(), auto(vec![relay("sh"), relay("cert"), own("ske", 0), relay("ske"), own("ske", 0), relay("shd")]), 0, 0);
    for pack in [1, 2] {
        add(format!("attack:genuine-ske-then-own-ske:pack{pack}"), auto(vec![relay("sh"), relay("cert"), relay("ske"), own("ske", 0), relay("shd")]), 0, pack);
        add(format!("attack:genuine-cert-own-cert-own-ske:pack{pack}"), auto(vec![relay("sh"), relay("cert"), own("cert", 0), own("ske", 0), relay("shd")]), 0, pack);
        add(format!("omit:ske:pack{pack}"), auto(vec![relay("sh"), relay("cert"), relay("shd")]), 0, pack);
    }
    // ServerHelloDone early / repeated
    add("shd-early:after-sh".into(), auto(vec![relay("sh"), relay("shd"), relay("cert"), relay("ske"), relay("shd")]), 0, 0);
    add("shd-early:after-cert".into(), auto(vec![relay("sh"), relay("cert"), relay("shd"), relay("ske"), relay("shd")]), 0, 0);
    add("shd-early:after-cert-then-own-ske".into(), auto(vec![relay("sh"), relay("cert"), relay("shd"), own("ske", 0), relay("shd")]), 0, 0);
    // repeated ServerHello with another random / without EMS at every later position
    for pos in 1..=4usize {
        for x in [0i64, 1] {
            let mut p = honest1();
            p.insert(pos, own("sh", x));
            add(format!("second-sh:v{x}:pos{pos}"), auto(p), 0, 0);
        }
    }
    // ChangeCipherSpec / Finished / application data inside the first flight
    for pos in 0..=4usize {
        let mut p = honest1();
        p.insert(pos, it("ccs", "", &[]));
        add(format!("ccs-early:pos{pos}"), auto(p), 0, 0);
    }
    for pos in [1usize, 3, 4] {
        let mut p = honest1();
        p.insert(pos, own("fin0", 0));
        add(format!("clear-finished:pos{pos}"), auto(p), 0, 0);
        let mut p = honest1();
        p.insert(pos, it("fin", "", &[1]));
        add(format!("garbage-enc-finished:pos{pos}"), auto(p), 0, 0);
        let mut p = honest1();
        p.insert(pos, it("app", "", &[1]));
        add(format!("clear-appdata:pos{pos}"), auto(p), 0, 0);
    }
    add("finish-without-client-flight".into(), vec![relay("sh"), relay("cert"), relay("ske"), relay("shd"), it("ccs", "", &[]), it("fin", "", &[1]), it("app", "", &[0]), wait(2)], 0, 0);
    // HelloVerifyRequest at every position (the client keeps its authentication state across it)
    for pos in 0..=4usize {
        let mut p = honest1();
        p.insert(pos, own("hvr", 0));
        add(format!("hvr:pos{pos}"), auto(p), 0, 0);
    }
    add("hvr:after-verified-then-own-sh-shd".into(), auto(vec![relay("sh"), relay("cert"), relay("ske"), own("hvr", 0), own("sh", 2), own("shd", 0)]), 0, 0);
    add("hvr:after-verified-then-own-sh-own-ske-shd".into(), auto(vec![relay("sh"), relay("cert"), relay("ske"), own("hvr", 0), own("sh", 2), own("ske", 0), own("shd", 0)]), 0, 0);
    add("hvr:after-verified-then-full-genuine".into(), auto(vec![relay("sh"), relay("cert"), relay("ske"), own("hvr", 0), relay("sh"), relay("cert"), relay("ske"), relay("shd")]), 0, 0);
    add("hvr:after-cert-then-own-sh-own-ske".into(), auto(vec![relay("sh"), relay("cert"), own("hvr", 0), own("sh", 2), own("ske", 0), own("shd", 0)]), 0, 0);
    // messages of the wrong role / not part of this handshake
    for t in ["ch", "cke", "creq", "hreq", "cver"] {
        for pos in [0usize, 3] {
            let mut p = honest1();
            p.insert(pos, own(t, 0));
            add(format!("wrong-role:{t}:pos{pos}"), auto(p), 0, 0);
        }
    }
    // numbering: honest content, other message_seq
    add("renumber:start-at-1".into(), auto(vec![it("relay", "sh", &[2]), relay("cert"), relay("ske"), relay("shd")]), 0, 0);
    add("renumber:all-honest-positions-after-insert".into(), auto(vec![relay("sh"), own("cert", 0), it("relay", "cert", &[1]), it("relay", "ske", &[1]), it("relay", "shd", &[1])]), 0, 0);
    add("renumber:own-ske-at-genuine-number-before".into(), auto(vec![relay("sh"), relay("cert"), it("own", "ske", &[1, 0]), it("relay", "ske", &[1]), it("relay", "shd", &[1])]), 0, 0);
    // phase 2: honest first flight (numbers unchanged, B's transcript agrees), client's flight handed to B, then deviations
    let p2 = |items: Vec<Op>| {
        let mut p = honest1();
        p.push(wait(1));
        p.extend(items);
        p
    };
    let ccs = || it("ccs", "", &[]);
    add("p2:honest".into(), p2(vec![relay("ccs"), relay("fin")]), 3, 0);
    add("p2:finished-without-ccs".into(), p2(vec![relay("fin")]), 0, 0);
    add("p2:ccs-only".into(), p2(vec![relay("ccs")]), 0, 0);
    add("p2:nothing".into(), p2(vec![]), 0, 0);
    add("p2:finished-then-ccs".into(), p2(vec![relay("fin"), relay("ccs")]), 0, 0);
    add("p2:ccs-twice".into(), p2(vec![relay("ccs"), relay("ccs"), relay("fin")]), 0, 0);
    add("p2:finished-twice".into(), p2(vec![relay("ccs"), relay("fin"), relay("fin")]), 0, 0);
    add("p2:own-ccs-garbage-finished".into(), p2(vec![ccs(), it("fin", "", &[1]), it("app", "", &[0])]), 0, 0);
    add("p2:garbage-finished-before-genuine".into(), p2(vec![relay("ccs"), it("fin", "", &[1]), relay("fin")]), 0, 0);
    add("p2:clear-finished-before-genuine".into(), p2(vec![relay("ccs"), own("fin0", 0), relay("fin")]), 0, 0);
    add("p2:clear-finished-only".into(), p2(vec![ccs(), own("fin0", 0), it("app", "", &[1])]), 0, 0);
    add("p2:zero-premaster-finished".into(), p2(vec![ccs(), it("fin", "", &[2]), it("app", "", &[2])]), 0, 0);
    add("p2:appdata-before-finished".into(), p2(vec![relay("ccs"), it("app", "", &[0]), it("app", "", &[1]), relay("fin")]), 0, 0);
    add("p2:appdata-after-finished".into(), p2(vec![relay("ccs"), relay("fin"), it("app", "", &[0]), it("app", "", &[1]), it("app", "", &[2])]), 0, 0);
    add("p2:second-flight-after-connected".into(), p2(vec![relay("ccs"), relay("fin"), own("sh", 2), own("cert", 0), own("ske", 0), own("shd", 0)]), 0, 0);
    add("p2:hvr-after-connected".into(), p2(vec![relay("ccs"), relay("fin"), own("hvr", 0), own("sh", 2), own("cert", 0), own("ske", 0), own("shd", 0), wait(0)]), 0, 0);
    add("p2:omit-ske-zero-premaster".into(), vec![relay("sh"), relay("cert"), relay("shd"), wait(2), ccs(), it("fin", "", &[2]), it("app", "", &[2])], 0, 0);
    v
}

fn random_item(r: &mut Rng) -> Op {
    let seqmode = *r.pick(&[0i64, 0, 0, 0, 1, 2, 3]);
    match r.below(16) {
        0 | 1 => it("relay", *r.pick(&FLIGHT[..]), &[seqmode]),
        2 => it("own", "sh", &[seqmode, r.below(3) as i64]),
        3 | 4 => it("own", "cert", &[seqmode, r.below(5) as i64]),
        5 | 6 | 7 => it("own", "ske", &[seqmode, *r.pick(&[0i64, 0, 0, 1, 2, 3, 4])]),
        8 => it("own", "shd", &[seqmode, 0]),
        9 => it("own", "hvr", &[seqmode, 0]),
        10 => it("own", *r.pick(&["ch", "cke", "creq", "hreq", "cver", "fin0"][..]), &[seqmode, 0]),
        11 => it("ccs", "", &[]),
        12 => it("fin", "", &[r.below(3) as i64]),
        13 => it("app", "", &[r.below(3) as i64]),
        14 => it("relay", *r.pick(&["ccs", "fin"][..]), &[0]),
        _ => it("own", "ske", &[0, 0]),
    }
}

pub fn core_len() -> u64 {
    catalogue().len() as u64
}

pub fn generate(prop: &str, seed: u64, idx: u64, _tier: Tier) -> Plan {
    let mut r = Rng::new(mix(mix(seed, idx), fnv(FNV0, b"dtls_mitm") ^ fnv(FNV0, prop.as_bytes())));
    let mut p = Plan { prop: prop.into(), scenario: "dtls_mitm".into(), seed: r.next(), ..Default::default() };
    let cat = catalogue();
    let n = cat.len() as u64;
    p.heal_at_ms = 60_000;
    if idx < 2 * n {
        // every catalogue script twice: paced (each item reaches A before the next is sent) and as a burst
        let s = &cat[(idx % n) as usize];
        let paced = idx < n;
        p.latency_us = [r.range(200, 20_000), r.range(200, 20_000)];
        p.sched = Sched { rng_seed: r.next(), defer_pct: 0 };
        p.ops.push(it("name", &s.name, &[]));
        p.ops.extend(s.ops.iter().cloned());
        if paced {
            let gap = p.latency_us[1] / 1000 + 2;
            for o in p.ops.iter_mut().skip(1) {
                o.at_ms = gap;
            }
        }
        p.knobs.insert("ctl".into(), s.ctl);
        p.knobs.insert("pack".into(), s.pack);
        p.knobs.insert("core".into(), 1);
        return p;
    }
    // swarm: edited flights, seeded latencies / schedule / pacing / packing, half of them with network faults
    p.latency_us = [r.range(200, 60_000), r.range(200, 60_000)];
    p.sched = Sched { rng_seed: r.next(), defer_pct: if r.chance(50) { 0 } else { r.range(1, 40) as u8 } };
    let mut ops: Vec<Op>;
    let mut ctl = 0;
    let roll = r.below(100);
    if roll < 4 {
        ops = vec![it("forward", "", &[])];
        ctl = 1;
    } else if roll < 7 {
        ops = honest1();
        ops.push(wait(0));
        ctl = 3;
    } else if roll < 10 {
        ops = vec![own("sh", 2), own("cert", 0), own("ske", 0), own("shd", 0), wait(0)];
        ctl = 2;
    } else {
        // start from a catalogue script or the honest flight and apply 1..4 edits
        ops = if r.chance(40) { r.pick(&cat).ops.clone() } else { honest1() };
        let first_wait = ops.iter().position(|o| o.kind == "wait").unwrap_or(ops.len());
        let mut head: Vec<Op> = ops[..first_wait].to_vec();
        let mut tail: Vec<Op> = ops[first_wait..].to_vec();
        for _ in 0..r.range(1, 4) {
            let l = head.len();
            match r.below(6) {
                0 if l > 0 => {
                    head.remove(r.below(l as u64) as usize);
                }
                1 if l > 1 => {
                    let i = r.below(l as u64 - 1) as usize;
                    head.swap(i, i + 1);
                }
                2 if l > 0 => {
                    let i = r.below(l as u64) as usize;
                    let d = head[i].clone();
                    head.insert(i, d);
                }
                3 if l > 0 => {
                    let i = r.below(l as u64) as usize;
                    if !head[i].a.is_empty() && (head[i].kind == "relay" || head[i].kind == "own") {
                        head[i].a[0] = r.below(4) as i64;
                    }
                }
                _ => {
                    let i = r.below(l as u64 + 1) as usize;
                    head.insert(i, random_item(&mut r));
                }
            }
        }
        if tail.is_empty() {
            tail.push(wait(*r.pick(&[0i64, 0, 0, 1, 1, 2])));
        }
        if tail[0].arg(0) != 0 && tail.len() == 1 {
            // explicit second phase
            let mut t2 = vec![it("relay", "ccs", &[0]), it("relay", "fin", &[0])];
            for _ in 0..r.below(4) {
                let l = t2.len();
                match r.below(4) {
                    0 if l > 0 => {
                        t2.remove(r.below(l as u64) as usize);
                    }
                    1 if l > 1 => t2.swap(0, 1),
                    _ => {
                        let i = r.below(l as u64 + 1) as usize;
                        t2.insert(i, random_item(&mut r));
                    }
                }
            }
            tail.extend(t2);
        }
        ops = head;
        ops.extend(tail);
    }
    let gap = match r.below(3) {
        0 => 0,
        1 => p.latency_us[1] / 1000 + 2,
        _ => r.range(1, 40),
    };
    for o in ops.iter_mut() {
        o.at_ms = gap;
    }
    p.ops.push(it("name", "swarm", &[]));
    p.ops.extend(ops);
    p.knobs.insert("ctl".into(), ctl);
    p.knobs.insert("pack".into(), *r.pick(&[0i64, 0, 0, 1, 2]));
    if r.chance(50) {
        // loss / duplication / delay of handshake datagrams of all three parties: retransmissions of A and B and M's
        // own repeat of its flight come into play
        const CLASSES: [(&str, &str); 14] = [
            ("A", "DTLS:hs:client_hello"),
            ("A", "DTLS:hs:client_key_exchange"),
            ("A", "DTLS:ccs"),
            ("A", "DTLS:hs:finished"),
            ("B", "DTLS:hs:server_hello"),
            ("B", "DTLS:hs:certificate"),
            ("B", "DTLS:hs:server_key_exchange"),
            ("B", "DTLS:hs:server_hello_done"),
            ("B", "DTLS:hs:finished"),
            ("M", "DTLS:hs:server_hello"),
            ("M", "DTLS:hs:certificate"),
            ("M", "DTLS:hs:server_key_exchange"),
            ("M", "DTLS:hs:server_hello_done"),
            ("M", "DTLS:hs"),
        ];
        for _ in 0..r.range(1, 3) {
            let (from, class) = *r.pick(&CLASSES);
            let action = match r.below(4) {
                0 | 1 => Action::Drop,
                2 => Action::Dup { delay_ms: *r.pick(&[5u64, 300, 1500]), copies: 1 },
                _ => Action::Delay { ms: *r.pick(&[50u64, 700, 2500]) },
            };
            p.faults.push(Rule { from: from.into(), class: class.into(), ordinal: r.below(2) as u32, action });
        }
        p.heal_at_ms = 12_000;
        p.knobs.insert("wait_ms".into(), 3500);
    }
    p
}

pub fn budget(_prop: &str, tier: Tier) -> u64 {
    match tier {
        Tier::Quick => 2 * core_len() + 6000,
        Tier::Thorough => 2 * core_len() + 120_000,
    }
}
