//! Scenario registry: plan.scenario -> async run; property -> plan generator.
use crate::plan::*;
use crate::sim::Ctx;
pub mod demux;
pub mod dtls;
pub mod dtls_mitm;
pub mod hostile;
pub mod hostile_gen;
pub mod hostile_mut;
pub mod hostile_tcp;
pub mod hostile_turn;
pub mod hostile_udptl;
pub mod icestun;
pub mod latch;
pub mod pc_close;
pub mod pc_connect;
pub mod srtpgate;
pub mod srtpgate_pc;
pub mod gen_sctp;
pub mod sctp;
pub mod signaling;
pub mod srtp;
pub mod srtp_pk;

pub async fn dispatch(ctx: &Ctx) {
    match ctx.plan.scenario.as_str() {
        "sctp_layer" => sctp::run(ctx).await,
        "dtls_layer" => dtls::run(ctx).await,
        "dtls_mitm" => dtls_mitm::run(ctx).await,
        "demux" => demux::run(ctx).await,
        "latch" => latch::run(ctx).await,
        "srtp_hist" => srtp::run(ctx).await,
        "signaling" => signaling::run(ctx).await,
        "ice_stun" => icestun::run(ctx).await,
        "pc_connect" => pc_connect::run(ctx).await,
        "pc_close" => pc_close::run(ctx).await,
        "srtp_gate" => srtpgate::run(ctx).await,
        "srtp_gate_pc" => srtpgate_pc::run(ctx).await,
        "hostile" => hostile::run(ctx).await,
        "hostile_tcp" => hostile_tcp::run(ctx).await,
        "hostile_turn" => hostile_turn::run(ctx).await,
        "hostile_udptl" => hostile_udptl::run(ctx).await,
        other => ctx.violate("HARNESS.scenario", format!("unknown scenario {other}")),
    }
}

#[derive(Clone, Copy, PartialEq, Debug)]
pub enum Tier {
    Quick,
    Thorough,
}

/// Expand (property, master seed, run index) into an explicit plan.
pub fn generate(prop: &str, seed: u64, idx: u64, tier: Tier) -> Option<Plan> {
    match prop {
        "C01" | "C12" | "C13" => Some(gen_sctp::generate(prop, seed, idx, tier)),
        "C11" | "C03" => Some(dtls::generate(prop, seed, idx, tier)),
        "C02" => Some(c02_generate(prop, seed, idx, tier)),
        "C19" => Some(demux::generate(prop, seed, idx, tier)),
        "C18" => Some(latch::generate(prop, seed, idx, tier)),
        "C04" | "C05" => Some(srtp::generate(prop, seed, idx, tier)),
        "C09" => Some(signaling::generate(prop, seed, idx, tier)),
        "C06" => Some(icestun::generate(prop, seed, idx, tier)),
        "C10" => Some(pc_connect::generate(prop, seed, idx, tier)),
        "C17" => Some(pc_close::generate(prop, seed, idx, tier)),
        "C14" => Some(c14_generate(prop, seed, idx, tier)),
        "C07" => Some(c07_generate(prop, seed, idx, tier)),
        _ => None,
    }
}

/// Number of runs for a tier.
pub fn budget(prop: &str, tier: Tier) -> u64 {
    match (prop, tier) {
        ("C02", t) => dtls::budget(prop, t) + dtls_mitm::budget(prop, t),
        ("C11" | "C03", t) => dtls::budget(prop, t),
        ("C19", t) => demux::budget(prop, t),
        ("C18", t) => latch::budget(prop, t),
        ("C04" | "C05", t) => srtp::budget(prop, t),
        ("C09", t) => signaling::budget(prop, t),
        ("C06", t) => icestun::budget(prop, t),
        ("C10", t) => pc_connect::budget(prop, t),
        ("C17", t) => pc_close::budget(prop, t),
        ("C14", t) => srtpgate::budget(prop, t) + srtpgate_pc::budget(prop, t),
        ("C07", t) => hostile::budget(prop, t) + hostile_tcp::budget(prop, t) + hostile_turn::budget(prop, t) + hostile_udptl::budget(prop, t),
        ("C01", Tier::Quick) => 40_000,
        ("C01", Tier::Thorough) => 600_000,
        ("C12", Tier::Quick) => 6000,
        ("C12", Tier::Thorough) => 200_000,
        ("C13", Tier::Quick) => 5000,
        ("C13", Tier::Thorough) => 150_000,
        (_, Tier::Quick) => 1000,
        (_, Tier::Thorough) => 50_000,
    }
}

/// C14 is decided by two scenarios that share one index space: within every block of
/// `srtpgate::budget + srtpgate_pc::budget` indices the first `srtpgate::budget` belong to `srtp_gate`
/// (RtpTransport legs assembled by the harness; block 0 = its exhaustive part + swarm, unchanged) and the
/// following `srtpgate_pc::budget` to `srtp_gate_pc` (real PeerConnection pairs). Further blocks only exist
/// under VERIF_BUDGET_SCALE > 1 and continue both swarms.
fn c14_generate(prop: &str, seed: u64, idx: u64, tier: Tier) -> Plan {
    let (a, b) = (srtpgate::budget(prop, tier), srtpgate_pc::budget(prop, tier));
    let (block, off) = (idx / (a + b), idx % (a + b));
    if off < a {
        srtpgate::generate(prop, seed, block * a + off, tier)
    } else {
        srtpgate_pc::generate(prop, seed, block * b + (off - a), tier)
    }
}

/// C07 is decided by four scenarios that share one index space (same layout as C14 / C02): within every block of
/// `hostile::budget + hostile_tcp::budget + hostile_turn::budget + hostile_udptl::budget` indices the first
/// `hostile::budget` belong to `hostile` (block 0 = its enumerated core + swarm, unchanged), the following
/// `hostile_tcp::budget` to `hostile_tcp` (hostile bytes on ICE-TCP streams; its first 120 indices enumerate shape x
/// phase x end x listener kind), then `hostile_turn::budget` to `hostile_turn` (a hostile TURN server over UDP / TCP; its
/// first 96 indices enumerate shape x stage x transport) and the last `hostile_udptl::budget` to `hostile_udptl`
/// (hostile datagrams at a UDPTL endpoint; its first 22 indices enumerate shape x source).
fn c07_generate(prop: &str, seed: u64, idx: u64, tier: Tier) -> Plan {
    let (a, b, c, d) = (hostile::budget(prop, tier), hostile_tcp::budget(prop, tier), hostile_turn::budget(prop, tier), hostile_udptl::budget(prop, tier));
    let (block, off) = (idx / (a + b + c + d), idx % (a + b + c + d));
    if off < a {
        hostile::generate(prop, seed, block * a + off, tier)
    } else if off < a + b {
        hostile_tcp::generate(prop, seed, block * b + (off - a), tier)
    } else if off < a + b + c {
        hostile_turn::generate(prop, seed, block * c + (off - a - b), tier)
    } else {
        hostile_udptl::generate(prop, seed, block * d + (off - a - b - c), tier)
    }
}

/// C02 is decided by two scenarios that share one index space (same layout as C14): within every block of
/// `dtls::budget + dtls_mitm::budget` indices the first `dtls::budget` belong to `dtls_layer` (on-path rewriter and
/// impostor endpoints; block 0 = its systematic core + swarm, unchanged) and the following `dtls_mitm::budget` to
/// `dtls_mitm` (scripted DTLS 1.2 man-in-the-middle; its first indices are the enumerated script catalogue).
fn c02_generate(prop: &str, seed: u64, idx: u64, tier: Tier) -> Plan {
    let (a, b) = (dtls::budget(prop, tier), dtls_mitm::budget(prop, tier));
    let (block, off) = (idx / (a + b), idx % (a + b));
    if off < a {
        dtls::generate(prop, seed, block * a + off, tier)
    } else {
        dtls_mitm::generate(prop, seed, block * b + (off - a), tier)
    }
}
