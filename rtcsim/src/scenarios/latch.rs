//! Scenario `latch` (C18): one `IceConn` with RTP latching enabled on host B; several source
//! addresses emit interleaved RTP (expected / other SSRC), RTCP, runts and junk; control ops
//! (reset_latch, signaling retarget, selected-pair update, expected-SSRC change) in between.
//! After every delivered packet the public latch state (`remote_addr`, `remote_rtcp_addr`,
//! `rtp_latched`) is compared with a reference model written from the *documented* rules
//! (conn.rs doc comment on `RtpCandidateState`, property text C18). Oracles: C18.legit,
//! C18.commit, C18.rule, C18.sticky, C18.rtcp.
//!
//! Two kinds of plans (knob `enum`):
//!   enum=1/2  exhaustive small scope: run index -> block of consecutive sequences over a reduced
//!             alphabet, every sequence on a fresh IceConn (`new` op), packets handed straight to
//!             `IceConn::receive` (knob direct=1; no socket, for speed);
//!   enum=0    random longer sequences (up to ~60 packets) through SimNet: inject -> socket ->
//!             pump task -> `IceConn::receive`. Reordering / duplication between sources is
//!             drawn by the generator and is explicit in the op order.
use super::Tier;
use crate::net::{addr, host_name};
use crate::plan::*;
use crate::sim::Ctx;
use async_trait::async_trait;
use bytes::Bytes;
use rustrtc::transports::ice::conn::IceConn;
use rustrtc::transports::ice::IceSocketWrapper;
use rustrtc::transports::PacketReceiver;
use std::net::SocketAddr;
use std::sync::atomic::{AtomicU64, Ordering};
use std::sync::Arc;
use std::time::Duration;
use tokio::sync::watch;
use tokio::task::JoinHandle;

// ---------------------------------------------------------------------------------------------
// address table (op argument -> socket address)
// ---------------------------------------------------------------------------------------------
pub const AD_A: i64 = 0;
pub const AD_C: i64 = 1;
pub const AD_M: i64 = 2;
/// signalled remote that never sends anything
pub const AD_S: i64 = 3;
pub const AD_A2: i64 = 4;
pub const AD_C1: i64 = 5;
pub const AD_M1: i64 = 6;
/// "remote not set" (0.0.0.0:0), as created by create_offer in RTP mode before the answer arrives
pub const AD_UNSET: i64 = 7;
/// second signalled target (retarget destination)
pub const AD_T: i64 = 8;
pub const AD_A1: i64 = 9;
const N_ADDR: i64 = 10;

pub fn at(i: i64) -> SocketAddr {
    match i.rem_euclid(N_ADDR) {
        0 => addr("A", 5000),
        1 => addr("C", 5000),
        2 => addr("M", 5000),
        3 => addr("10.0.0.7", 4000),
        4 => addr("A", 5002),
        5 => addr("C", 5001),
        6 => addr("M", 5001),
        7 => addr("0.0.0.0", 0),
        8 => addr("10.0.0.8", 4002),
        _ => addr("A", 5001),
    }
}

fn aname(a: SocketAddr) -> String {
    if a.port() == 0 {
        "unset".into()
    } else {
        format!("{}:{}", host_name(a.ip()), a.port())
    }
}
fn oname(a: Option<SocketAddr>) -> String {
    a.map(aname).unwrap_or_else(|| "-".into())
}
fn acode(a: SocketAddr) -> char {
    for i in 0..N_ADDR {
        if at(i) == a {
            return (b'0' + i as u8) as char;
        }
    }
    '?'
}

// ---------------------------------------------------------------------------------------------
// fallback for the crate-private control methods: if /repo carries the cfg(rustrtc_verif) seam
// (inherent methods of the same name) the inherent methods win method resolution and the real
// code runs; otherwise these bodies (copies of conn.rs:242-249 / 222-240) are used and counted.
// ---------------------------------------------------------------------------------------------
thread_local! { static EMULATED: std::cell::Cell<u64> = const { std::cell::Cell::new(0) }; }
#[allow(dead_code)]
trait CtlFallback {
    fn verif_set_remote_addr_from_signaling(&self, a: SocketAddr);
    fn verif_set_remote_addr_from_selected_pair(&self, a: SocketAddr);
}
impl CtlFallback for IceConn {
    fn verif_set_remote_addr_from_signaling(&self, a: SocketAddr) {
        EMULATED.with(|c| c.set(c.get() + 1));
        self.reset_latch();
        *self.remote_addr.write() = a;
    }
    fn verif_set_remote_addr_from_selected_pair(&self, a: SocketAddr) {
        EMULATED.with(|c| c.set(c.get() + 1));
        let cur = *self.remote_addr.read();
        if self.latch_on_rtp.load(Ordering::Relaxed) && self.rtp_latched.load(Ordering::Relaxed) && cur != a {
            return;
        }
        *self.remote_addr.write() = a;
    }
}

// ---------------------------------------------------------------------------------------------
// packets
// ---------------------------------------------------------------------------------------------
#[derive(Clone, Copy, PartialEq, Debug)]
enum Class {
    Rtp,
    Rtcp,
    Runt,
    Junk,
}

#[derive(Clone, Debug)]
struct Pkt {
    from: SocketAddr,
    class: Class,
    ssrc: u32,
    seq: u16,
    marker: bool,
    bytes: Vec<u8>,
}

/// Payload types that can never collide with the RTCP range (byte1 200..=211) when the marker is set.
const SAFE_PT: [i64; 5] = [0, 8, 96, 111, 127];

fn build(op: &Op) -> Option<Pkt> {
    let from = at(op.arg(0));
    match op.kind.as_str() {
        "rtp" => {
            let ssrc = op.arg(1) as u32;
            let seq = op.arg(2) as u16;
            let marker = op.arg(3) != 0;
            let ts = op.arg(4) as u32;
            let mut pt = (op.arg(5) & 0x7f) as u8;
            if (72..=83).contains(&pt) {
                pt = 96; // would be demultiplexed as RTCP when the marker bit is set (RFC 5761)
            }
            let b0 = if op.arg(6) == 0 { 0x80u8 } else { 0x80 | (op.arg(6) as u8 & 0x3f) };
            let mut b = vec![b0, pt | if marker { 0x80 } else { 0 }];
            b.extend_from_slice(&seq.to_be_bytes());
            b.extend_from_slice(&ts.to_be_bytes());
            b.extend_from_slice(&ssrc.to_be_bytes());
            b.extend_from_slice(&[0xAB; 8]);
            Some(Pkt { from, class: Class::Rtp, ssrc, seq, marker, bytes: b })
        }
        "rtcp" => {
            let ssrc = op.arg(1) as u32;
            let pt = if op.arg(2) == 0 { 200u8 } else { (op.arg(2) as u8).clamp(200, 211) };
            let mut b = vec![0x80, pt, 0, 6];
            b.extend_from_slice(&ssrc.to_be_bytes());
            b.extend_from_slice(&[0u8; 20]);
            Some(Pkt { from, class: Class::Rtcp, ssrc, seq: 0, marker: false, bytes: b })
        }
        "runt" => {
            // RTP-range first byte, shorter than an RTP header
            let len = op.arg(1).clamp(1, 11) as usize;
            let mut b = vec![0x80u8, 0x80 | 96, 0, 1, 0, 0, 0, 1, 0x12, 0x34, 0x56];
            b.truncate(len);
            Some(Pkt { from, class: Class::Runt, ssrc: 0, seq: 0, marker: false, bytes: b })
        }
        "junk" => {
            // not in the RTP/RTCP first-byte range (STUN / DTLS / reserved ranges)
            let mut fb = op.arg(1) as u8;
            if (128..192).contains(&fb) {
                fb = 22;
            }
            let len = op.arg(2).clamp(1, 64) as usize;
            let mut b = vec![fb; len];
            if len >= 12 {
                b[1] = 0x80; // marker-looking
            }
            Some(Pkt { from, class: Class::Junk, ssrc: 0, seq: 0, marker: false, bytes: b })
        }
        _ => None,
    }
}

// ---------------------------------------------------------------------------------------------
// observed state and the reference model
// ---------------------------------------------------------------------------------------------
#[derive(Clone, Copy, PartialEq, Debug)]
struct Snap {
    addr: SocketAddr,
    rtcp: Option<SocketAddr>,
    latched: bool,
}
fn snap(c: &IceConn) -> Snap {
    Snap { addr: *c.remote_addr.read(), rtcp: *c.remote_rtcp_addr.read(), latched: c.rtp_latched.load(Ordering::Relaxed) }
}
fn sname(s: &Snap) -> String {
    format!("rtp={} rtcp={} latched={}", aname(s.addr), oname(s.rtcp), s.latched as u8)
}

#[derive(Clone, Debug)]
struct Cand {
    addr: SocketAddr,
    /// sequence number of the first matching packet of this source
    first_seen: u16,
    /// lowest sequence number seen from this source (the other reading of "first_seq")
    min_seen: u16,
    last: u16,
    count: u32,
    /// number of packets with seq == last_seq + 1 (never reset: the weaker reading of the field doc;
    /// always >= the run-length reading, so accepting it accepts both)
    incs: u32,
    marker: bool,
}

#[derive(Default)]
struct Probes {
    commits: u64,
    rule0: u64,
    rule1: u64,
    rule2: u64,
    rule3: u64,
    competing: u64,
    foreign_after_commit: u64,
    wrap: u64,
    rtcp_set: u64,
    rtcp_set_in_mux: u64,
    selected_no_commit: u64,
    unset_adopt: u64,
    pkts: u64,
    matching: u64,
}

struct Model {
    prob: u32,
    exp: u32,
    cands: Vec<Cand>,
    total: u32,
    /// sources of SSRC-matching RTP since the last reset
    legit: Vec<SocketAddr>,
    rtcp_sets: u32,
    commit_flagged: bool,
    nontrivial: bool,
    /// the per-run violation cap is reached: keep judging, stop formatting
    muted: bool,
}

struct Sel {
    r0: Vec<SocketAddr>,
    r1: Vec<SocketAddr>,
    r2: Vec<SocketAddr>,
    r3: Vec<SocketAddr>,
}
impl Sel {
    fn contains(&self, a: SocketAddr) -> bool {
        self.r0.contains(&a) || self.r1.contains(&a) || self.r2.contains(&a) || self.r3.contains(&a)
    }
    fn is_empty(&self) -> bool {
        self.r0.is_empty() && self.r1.is_empty() && self.r2.is_empty() && self.r3.is_empty()
    }
    fn show(&self) -> String {
        let f = |v: &Vec<SocketAddr>| v.iter().map(|a| aname(*a)).collect::<Vec<_>>().join(",");
        format!("immediate={{{}}} marker={{{}}} consecutive={{{}}} majority/timeout={{{}}}", f(&self.r0), f(&self.r1), f(&self.r2), f(&self.r3))
    }
}

/// lowest "first_seq" under both readings (first packet's seq / lowest seq seen), ties all kept
fn lowest_first(c: &[&Cand]) -> Vec<SocketAddr> {
    let mut out = Vec::new();
    if let Some(m) = c.iter().map(|x| x.first_seen).min() {
        out.extend(c.iter().filter(|x| x.first_seen == m).map(|x| x.addr));
    }
    if let Some(m) = c.iter().map(|x| x.min_seen).min() {
        for x in c.iter().filter(|x| x.min_seen == m) {
            if !out.contains(&x.addr) {
                out.push(x.addr);
            }
        }
    }
    out
}

fn v(muted: bool, out: &mut Vec<(&'static str, String)>, oracle: &'static str, f: impl FnOnce() -> String) {
    out.push((oracle, if muted { String::new() } else { f() }));
}

impl Model {
    fn new(prob: u32, exp: u32) -> Self {
        Model { prob, exp, cands: Vec::new(), total: 0, legit: Vec::new(), rtcp_sets: 0, commit_flagged: false, nontrivial: false, muted: false }
    }
    fn reset(&mut self) {
        self.cands.clear();
        self.total = 0;
        self.legit.clear();
        self.rtcp_sets = 0;
        self.commit_flagged = false;
    }
    fn matching(&self, p: &Pkt) -> bool {
        p.class == Class::Rtp && p.bytes.len() >= 12 && (self.exp == 0 || p.ssrc == self.exp)
    }
    /// sources that at least one documented rule selects with the bookkeeping as it stands now
    fn selected(&self, from: SocketAddr) -> Sel {
        let mut s = Sel { r0: vec![], r1: vec![], r2: vec![], r3: vec![] };
        if self.prob == 0 {
            // "0 means no probation - first SSRC-matching RTP latches immediately"
            s.r0.push(from);
            return s;
        }
        // rule 1: marker seen, lowest first_seq among those with a marker
        let marked: Vec<&Cand> = self.cands.iter().filter(|c| c.marker).collect();
        s.r1 = lowest_first(&marked);
        // rule 2: consecutive_count >= 2 and >= 3 packets in total
        if self.total >= 3 {
            s.r2 = self.cands.iter().filter(|c| c.incs >= 2).map(|c| c.addr).collect();
        }
        // rule 3: max_packets observed: highest packet_count, ties by lowest first_seq
        if self.total >= self.prob {
            if let Some(m) = self.cands.iter().map(|c| c.count).max() {
                let top: Vec<&Cand> = self.cands.iter().filter(|c| c.count == m).collect();
                s.r3 = lowest_first(&top);
            }
        }
        s
    }

    fn on_packet(&mut self, p: &Pkt, prev: Snap, new: Snap, pr: &mut Probes, out: &mut Vec<(&'static str, String)>) {
        pr.pkts += 1;
        let unset = prev.addr.port() == 0;
        let pre = if unset { "remote unset (port 0): " } else { "" };
        if p.class == Class::Rtcp {
            if new.addr != prev.addr {
                if unset {
                    pr.unset_adopt += 1;
                }
                v(self.muted, out, "C18.rtcp", || format!("{pre}RTCP from {} moved the RTP address {} -> {}", aname(p.from), aname(prev.addr), aname(new.addr)));
            }
            if new.latched != prev.latched {
                v(self.muted, out, "C18.rtcp", || format!("RTCP from {} changed rtp_latched {} -> {}", aname(p.from), prev.latched, new.latched));
            }
            if new.rtcp != prev.rtcp {
                if new.rtcp != Some(p.from) {
                    v(self.muted, out, "C18.rtcp", || format!("RTCP from {} set the RTCP destination to {} (not the packet's source)", aname(p.from), oname(new.rtcp)));
                } else if self.rtcp_sets >= 1 {
                    v(self.muted, out, "C18.rtcp", || format!("RTCP from {} moved the RTCP destination a second time ({} -> {}) without a control op in between", aname(p.from), oname(prev.rtcp), oname(new.rtcp)));
                }
                self.rtcp_sets += 1;
                pr.rtcp_set += 1;
                if prev.rtcp.is_none() {
                    pr.rtcp_set_in_mux += 1;
                }
            }
            if prev.latched && p.from != prev.addr {
                pr.foreign_after_commit += 1;
                self.nontrivial = true;
            }
            return;
        }
        if new.rtcp != prev.rtcp {
            v(self.muted, out, "C18.rtcp", || format!("non-RTCP packet ({:?}) from {} changed the RTCP destination {} -> {}", p.class, aname(p.from), oname(prev.rtcp), oname(new.rtcp)));
        }
        let m = self.matching(p);
        if m {
            pr.matching += 1;
            if !self.legit.contains(&p.from) {
                self.legit.push(p.from);
            }
            if !prev.latched {
                self.total += 1;
                match self.cands.iter_mut().find(|c| c.addr == p.from) {
                    Some(c) => {
                        if p.seq == c.last.wrapping_add(1) {
                            c.incs += 1;
                            if p.seq == 0 {
                                pr.wrap += 1;
                            }
                        }
                        c.last = p.seq;
                        c.count += 1;
                        c.marker |= p.marker;
                        c.min_seen = c.min_seen.min(p.seq);
                    }
                    None => self.cands.push(Cand { addr: p.from, first_seen: p.seq, min_seen: p.seq, last: p.seq, count: 1, incs: 0, marker: p.marker }),
                }
            }
        }
        let what = || format!("{:?}{} from {}", p.class, if p.class == Class::Rtp { format!(" ssrc={:#x}({}) seq={} m={}", p.ssrc, if m { "matching" } else { "not matching" }, p.seq, p.marker as u8) } else { String::new() }, aname(p.from));
        if prev.latched {
            if p.from != prev.addr {
                pr.foreign_after_commit += 1;
                self.nontrivial = true;
            }
            if new.addr != prev.addr {
                v(self.muted, out, "C18.sticky", || format!("{pre}after commit, {} moved the RTP address {} -> {}", what(), aname(prev.addr), aname(new.addr)));
            }
            if !new.latched {
                v(self.muted, out, "C18.sticky", || format!("after commit, {} cleared rtp_latched without a control op", what()));
            }
            return;
        }
        if new.addr != prev.addr && !self.legit.contains(&new.addr) {
            if unset {
                pr.unset_adopt += 1;
            }
            v(self.muted, out, "C18.legit", || format!("{pre}{} moved the RTP address {} -> {}, an address that sent no SSRC-matching RTP since the last reset (such sources: [{}])", what(), aname(prev.addr), aname(new.addr), self.legit.iter().map(|a| aname(*a)).collect::<Vec<_>>().join(",")));
        }
        let sel = if m { self.selected(p.from) } else { Sel { r0: vec![], r1: vec![], r2: vec![], r3: vec![] } };
        if new.latched {
            pr.commits += 1;
            if self.cands.len() >= 2 {
                pr.competing += 1;
                self.nontrivial = true;
            }
            if !sel.contains(new.addr) {
                let (sel_ref, me) = (&sel, &*self);
                v(self.muted, out, "C18.rule", || {
                    format!(
                        "{} committed the latch to {} but the documented rules select {} (probation={}, matching packets since reset={}, candidates={})",
                        what(),
                        aname(new.addr),
                        if sel_ref.is_empty() { "nothing at this packet".to_string() } else { sel_ref.show() },
                        me.prob,
                        me.total,
                        me.show_cands()
                    )
                });
            } else {
                pr.rule0 += sel.r0.contains(&new.addr) as u64;
                pr.rule1 += sel.r1.contains(&new.addr) as u64;
                pr.rule2 += sel.r2.contains(&new.addr) as u64;
                pr.rule3 += sel.r3.contains(&new.addr) as u64;
            }
        } else if m {
            if !sel.is_empty() {
                pr.selected_no_commit += 1;
            }
            let bound = self.prob.max(1);
            if self.total >= bound && !self.commit_flagged {
                self.commit_flagged = true;
                v(self.muted, out, "C18.commit", || format!("not latched after {} SSRC-matching RTP packets since the last reset (probation_max_packets={}); candidates={}", self.total, self.prob, self.show_cands()));
            }
        }
    }
    fn show_cands(&self) -> String {
        let v: Vec<String> = self.cands.iter().map(|c| format!("{}(first_seq={}/min={},last={},n={},consecutive={},marker={})", aname(c.addr), c.first_seen, c.min_seen, c.last, c.count, c.incs, c.marker as u8)).collect();
        format!("[{}]", v.join(" "))
    }
}

// ---------------------------------------------------------------------------------------------
// the rig
// ---------------------------------------------------------------------------------------------
struct Sink {
    n: AtomicU64,
}
#[async_trait]
impl PacketReceiver for Sink {
    async fn receive(&self, _p: Bytes, _a: SocketAddr, _b: &mut Vec<u8>) {
        self.n.fetch_add(1, Ordering::Relaxed);
    }
}

struct Cfg {
    prob: u32,
    exp: u32,
    mux: bool,
    peer: i64,
}

struct Live {
    conn: Arc<IceConn>,
    _sock_tx: watch::Sender<Option<IceSocketWrapper>>,
    pump: Option<JoinHandle<()>>,
    local: SocketAddr,
}

fn rtcp_of(a: SocketAddr) -> Option<SocketAddr> {
    let mut r = a;
    r.set_port(a.port().checked_add(1)?);
    Some(r)
}

fn make(ctx: &Ctx, cfg: &Cfg, direct: bool, generation: u16, sink: &Arc<Sink>) -> Live {
    let peer = at(cfg.peer);
    let (conn, tx, pump, local) = if direct {
        let (tx, rx) = watch::channel::<Option<IceSocketWrapper>>(None);
        (IceConn::new(rx, peer, Some("B".into())), tx, None, addr("B", 5000))
    } else {
        let (c, tx, p, me) = crate::rig::bare_conn(ctx, "B", 5000u16.wrapping_add(generation), peer);
        (c, tx, Some(p), me)
    };
    // same order as peer_connection.rs: construct with probation, enable latching, RTCP address, SSRC
    conn.set_probation_max_packets(if cfg.prob > 0 { Some(cfg.prob.min(255) as u8) } else { None });
    conn.enable_latch_on_rtp();
    if !cfg.mux && peer.port() != 0 {
        conn.set_remote_rtcp_addr(rtcp_of(peer));
    }
    if cfg.exp != 0 {
        conn.set_expected_ssrc(cfg.exp);
    }
    conn.set_rtp_receiver(sink.clone());
    Live { conn, _sock_tx: tx, pump, local }
}

async fn retire(l: Live) {
    if let Some(p) = l.pump {
        p.abort();
        let _ = p.await;
    }
}

fn op_short(op: &Op) -> String {
    match op.kind.as_str() {
        "rtp" => format!("rtp({} ssrc={:#x} seq={} m={})", aname(at(op.arg(0))), op.arg(1) as u32, op.arg(2) as u16, op.arg(3)),
        "rtcp" => format!("rtcp({})", aname(at(op.arg(0)))),
        "runt" => format!("runt({} len={})", aname(at(op.arg(0))), op.arg(1)),
        "junk" => format!("junk({} b0={})", aname(at(op.arg(0))), op.arg(1) as u8),
        "retarget" => format!("retarget({} rtcp_mode={} ssrc={})", aname(at(op.arg(0))), op.arg(1), op.arg(2)),
        "pairupd" => format!("pairupd({})", aname(at(op.arg(0)))),
        "ssrc" => format!("ssrc({:#x})", op.arg(0) as u32),
        k => k.to_string(),
    }
}

pub async fn run(ctx: &Ctx) {
    let plan = &ctx.plan;
    let cfg = Cfg { prob: plan.knob("probation", 0).clamp(0, 255) as u32, exp: plan.knob("exp_ssrc", 0) as u32, mux: plan.knob("mux", 1) != 0, peer: plan.knob("peer", AD_S) };
    let direct = plan.knob("direct", 0) != 0;
    let lat_max = Duration::from_micros(plan.latency_us[0].max(plan.latency_us[1]).max(1));
    EMULATED.with(|c| c.set(0));
    let sink = Arc::new(Sink { n: AtomicU64::new(0) });
    let mut generation: u16 = 0;
    let mut live = make(ctx, &cfg, direct, generation, &sink);
    let mut model = Model::new(cfg.prob, cfg.exp);
    let mut pr = Probes::default();
    let mut seqs: u64 = 1;
    let mut nontrivial = false;
    let mut pair_preserved = 0u64;
    let mut hist_start = 0usize;
    let mut mb: Vec<u8> = Vec::new();
    let mut viol: Vec<(&'static str, String)> = Vec::new();
    let mut summary = String::new();
    let mut nviol = 0usize;
    let mut muted = false;
    if cfg.peer.rem_euclid(N_ADDR) == AD_UNSET {
        ctx.stat("probe.unset_peer_runs", 1);
    }
    if !direct {
        ctx.ev(&format!("cfg probation={} ssrc_known={} mux={} peer={}", cfg.prob, (cfg.exp != 0) as u8, cfg.mux as u8, aname(at(cfg.peer))), &format!("exp_ssrc={:#x} local={}", cfg.exp, live.local));
    }

    for (i, op) in plan.ops.iter().enumerate() {
        if !direct {
            ctx.sleep_until_ms(op.at_ms).await;
        }
        let prev = snap(&live.conn);
        match op.kind.as_str() {
            "new" => {
                nontrivial |= model.nontrivial;
                if direct && !summary.is_empty() {
                    ctx.ev(&summary, "");
                    summary.clear();
                }
                generation = generation.wrapping_add(1);
                let old = std::mem::replace(&mut live, make(ctx, &cfg, direct, generation, &sink));
                retire(old).await;
                model = Model::new(cfg.prob, cfg.exp);
                model.muted = muted;
                seqs += 1;
                hist_start = i + 1;
                if !direct {
                    ctx.ev("new conn", "");
                }
                continue;
            }
            "reset" => {
                live.conn.reset_latch();
                model.reset();
            }
            "retarget" => {
                // peer_connection.rs:2762-2772 / 2806-2815: signalling address, RTCP address, SSRC if present
                let a = at(op.arg(0));
                live.conn.verif_set_remote_addr_from_signaling(a);
                let rt = match op.arg(1) {
                    0 => None,
                    1 => rtcp_of(a),
                    _ => Some(at(op.arg(3))),
                };
                live.conn.set_remote_rtcp_addr(rt);
                if op.arg(2) >= 0 {
                    live.conn.set_expected_ssrc(op.arg(2) as u32);
                    model.exp = op.arg(2) as u32;
                }
                model.reset();
            }
            "pairupd" => {
                let a = at(op.arg(0));
                live.conn.verif_set_remote_addr_from_selected_pair(a);
                if prev.latched && a != prev.addr && snap(&live.conn).addr == prev.addr {
                    pair_preserved += 1;
                }
            }
            "ssrc" => {
                live.conn.set_expected_ssrc(op.arg(0) as u32);
                model.exp = op.arg(0) as u32;
            }
            _ => {
                let Some(p) = build(op) else {
                    ctx.violate("HARNESS.op", format!("unknown op kind {}", op.kind));
                    continue;
                };
                let rx0 = live.conn.rx_packets.load(Ordering::Relaxed);
                let sk0 = sink.n.load(Ordering::Relaxed);
                if direct {
                    live.conn.receive(Bytes::copy_from_slice(&p.bytes), p.from, &mut mb).await;
                } else {
                    ctx.net.inject(p.from, live.local, &p.bytes);
                    tokio::time::sleep(lat_max + Duration::from_micros(500)).await;
                    let mut tries = 0;
                    while live.conn.rx_packets.load(Ordering::Relaxed) == rx0 && tries < 20 {
                        tokio::time::sleep(Duration::from_millis(1)).await;
                        tries += 1;
                    }
                }
                let rx1 = live.conn.rx_packets.load(Ordering::Relaxed);
                if rx1 != rx0 + 1 {
                    ctx.violate("HARNESS.delivery", format!("op#{i} {}: rx_packets {} -> {} (expected exactly one delivery)", op_short(op), rx0, rx1));
                    continue;
                }
                let consumed = sink.n.load(Ordering::Relaxed) - sk0;
                let want = matches!(p.class, Class::Rtp | Class::Rtcp | Class::Runt) as u64;
                if consumed != want {
                    ctx.violate("HARNESS.sink", format!("op#{i} {}: rtp_receiver saw {} packets, expected {}", op_short(op), consumed, want));
                }
                let new = snap(&live.conn);
                let was_match = model.matching(&p);
                model.muted = muted;
                model.on_packet(&p, prev, new, &mut pr, &mut viol);
                if direct {
                    summary.push(match p.class {
                        Class::Rtp if was_match => if p.marker { 'M' } else { 'r' },
                        Class::Rtp => 'o',
                        Class::Rtcp => 'c',
                        Class::Runt => 'u',
                        Class::Junk => 'j',
                    });
                    summary.push(acode(p.from));
                    summary.push(acode(new.addr));
                    summary.push(if new.latched { 'L' } else { '.' });
                } else {
                    let cls = match p.class {
                        Class::Rtp => format!("rtp {} m={}", if was_match { "match" } else { "other" }, p.marker as u8),
                        Class::Rtcp => "rtcp".into(),
                        Class::Runt => "runt".into(),
                        Class::Junk => "junk".into(),
                    };
                    ctx.ev(&format!("deliver {} {cls} -> {}", aname(p.from), sname(&new)), &format!("op#{i} seq={} ssrc={:#x} len={}", p.seq, p.ssrc, p.bytes.len()));
                }
                if !viol.is_empty() && nviol >= 16 {
                    viol.clear();
                }
                if !viol.is_empty() {
                    nviol += viol.len();
                    muted = nviol >= 16;
                    let from = hist_start.max((i + 1).saturating_sub(24));
                    let hist: Vec<String> = plan.ops[from..=i].iter().map(op_short).collect();
                    for (o, d) in viol.drain(..) {
                        ctx.violate(o, format!("op#{i}: {d}; before: {}; after: {}; cfg: probation={} expected_ssrc={:#x} mux={} peer={}; ops since new conn: {}", sname(&prev), sname(&new), cfg.prob, model.exp, cfg.mux as u8, aname(at(cfg.peer)), hist.join(" ")));
                    }
                }
                continue;
            }
        }
        // control op epilogue
        let new = snap(&live.conn);
        if direct {
            summary.push(match op.kind.as_str() {
                "reset" => 'R',
                "retarget" => 'T',
                "pairupd" => 'P',
                _ => 'S',
            });
            summary.push(acode(new.addr));
            summary.push(if new.latched { 'L' } else { '.' });
        } else {
            ctx.ev(&format!("ctl {} -> {}", op.kind, sname(&new)), &op_short(op));
        }
    }
    nontrivial |= model.nontrivial;
    if direct && !summary.is_empty() {
        ctx.ev(&summary, "");
    }
    retire(live).await;
    drop(sink);
    if !direct {
        tokio::time::sleep(Duration::from_millis(1)).await;
    }
    let emu = EMULATED.with(|c| c.get());
    let mut sh = ctx.sh.lock().unwrap();
    sh.stat("seqs", seqs);
    sh.stat("pkts", pr.pkts);
    sh.stat("pkts.matching", pr.matching);
    sh.stat("commits", pr.commits);
    sh.stat("probe.commit_immediate", pr.rule0);
    sh.stat("probe.commit_marker_rule", pr.rule1);
    sh.stat("probe.commit_consecutive_rule", pr.rule2);
    sh.stat("probe.commit_majority_rule", pr.rule3);
    sh.stat("probe.commit_with_competing_sources", pr.competing);
    sh.stat("probe.foreign_packet_after_commit", pr.foreign_after_commit);
    sh.stat("probe.seq_wrap_consecutive", pr.wrap);
    sh.stat("probe.rtcp_destination_set", pr.rtcp_set);
    sh.stat("probe.rtcp_destination_set_in_mux", pr.rtcp_set_in_mux);
    sh.stat("probe.rule_selects_but_no_commit_yet", pr.selected_no_commit);
    sh.stat("probe.unset_remote_adopted", pr.unset_adopt);
    sh.stat("probe.pair_update_preserved_latch", pair_preserved);
    sh.stat("probe.ctl_emulated", emu);
    if nontrivial {
        sh.stat("nontrivial", 1);
    }
    let now = sh.now_ms() as u64;
    sh.stat("virt_ms", now);
}

// ---------------------------------------------------------------------------------------------
// generation
// ---------------------------------------------------------------------------------------------
pub const EXP_SSRC: i64 = 0x1234_5678;
pub const OTHER_SSRC: i64 = 0x0BAD_F00D;
const PROBATIONS: [i64; 6] = [0, 1, 2, 3, 6, 8];
const PROBATIONS_B: [i64; 2] = [6, 8];
const PEERS: [i64; 2] = [AD_S, AD_A];
const BLOCK: u64 = 512;
/// family A: {A,C,M} x {RTP matching x marker x step, RTP other SSRC, RTCP} + {reset, retarget, pair update}
const SYM_A: u64 = 21;
/// family B: {A,C,M} x {step +1 / jump}, matching RTP without marker (majority / timeout competition)
const SYM_B: u64 = 6;

/// (family, probation, signalled remote, word length); family 1 = SYM_A alphabet, 2 = SYM_B alphabet
fn configs(t: Tier) -> Vec<(i64, i64, i64, u32)> {
    let mut v = Vec::new();
    let (la_silent, la_source, lb) = match t {
        Tier::Quick => (5, 4, 8),
        Tier::Thorough => (6, 6, 10),
    };
    for p in PROBATIONS {
        v.push((1, p, AD_S, la_silent));
        v.push((1, p, AD_A, la_source));
    }
    for p in PROBATIONS_B {
        for peer in PEERS {
            v.push((2, p, peer, lb));
        }
    }
    v
}
fn nsym(family: i64) -> u64 {
    if family == 1 { SYM_A } else { SYM_B }
}
fn blocks(nsym: u64, len: u32) -> u64 {
    nsym.pow(len).div_ceil(BLOCK)
}
pub fn enum_blocks(t: Tier) -> u64 {
    configs(t).iter().map(|c| blocks(nsym(c.0), c.3)).sum()
}
fn gcd(a: u64, b: u64) -> u64 {
    if b == 0 { a } else { gcd(b, a % b) }
}
/// bijection on 0..n that scatters neighbouring run indices over the whole enumerated space
fn scatter(e: u64, n: u64) -> u64 {
    let mut stride = 1_000_003u64 % n.max(1);
    while stride == 0 || gcd(stride, n) != 1 {
        stride += 1;
    }
    ((e as u128 * stride as u128) % n as u128) as u64
}

/// Runs per tier: every enumerated block once, interleaved 1:1 with random plans.
pub fn budget(_prop: &str, tier: Tier) -> u64 {
    2 * enum_blocks(tier)
}

struct Streams {
    next: [u16; 3],
    ts: [u32; 3],
}
impl Streams {
    fn new() -> Self {
        // C starts below A (first_seq tie-breaks), M starts right before the 16-bit wrap
        Streams { next: [1000, 950, 65535], ts: [160_000, 80_000, 4_294_967_000] }
    }
    fn rtp(&mut self, src: usize, ssrc: i64, marker: bool, jump: bool) -> Op {
        let seq = if jump { self.next[src].wrapping_add(100) } else { self.next[src] };
        self.next[src] = seq.wrapping_add(1);
        let ts = self.ts[src];
        self.ts[src] = ts.wrapping_add(160);
        Op::new(0, "rtp", &[src as i64, ssrc, seq as i64, marker as i64, ts as i64, 0, 0])
    }
}

fn sym_a(s: u64, st: &mut Streams) -> Op {
    match s {
        0..=11 => {
            let src = (s / 4) as usize;
            st.rtp(src, EXP_SSRC, (s / 2) % 2 == 1, s % 2 == 1)
        }
        12..=14 => st.rtp((s - 12) as usize, OTHER_SSRC, true, false),
        15..=17 => Op::new(0, "rtcp", &[(s - 15) as i64, EXP_SSRC, 200]),
        18 => Op::new(0, "reset", &[]),
        19 => Op::new(0, "retarget", &[AD_T, 1, -1]),
        _ => Op::new(0, "pairupd", &[AD_M]),
    }
}

fn gen_enum(p: &mut Plan, e: u64, tier: Tier) {
    let cfgs = configs(tier);
    let mut rest = scatter(e, enum_blocks(tier));
    let mut pick = cfgs[0];
    for c in cfgs.iter() {
        let b = blocks(nsym(c.0), c.3);
        if rest < b {
            pick = *c;
            break;
        }
        rest -= b;
    }
    let (family, prob, peer, len) = pick;
    let (blk, nsym) = (rest, nsym(family));
    let total = nsym.pow(len);
    let first = blk * BLOCK;
    let count = BLOCK.min(total - first);
    p.knobs.insert("enum".into(), family);
    p.knobs.insert("enum_first".into(), first as i64);
    p.knobs.insert("enum_count".into(), count as i64);
    p.knobs.insert("enum_len".into(), len as i64);
    p.knobs.insert("direct".into(), 1);
    p.knobs.insert("probation".into(), prob);
    p.knobs.insert("peer".into(), peer);
    p.knobs.insert("exp_ssrc".into(), EXP_SSRC);
    p.knobs.insert("mux".into(), 0);
    p.latency_us = [1000, 1000];
    p.ops.reserve((count as usize) * (len as usize + 1));
    for k in 0..count {
        if k > 0 {
            p.ops.push(Op::new(0, "new", &[]));
        }
        let mut st = Streams::new();
        let mut v = first + k;
        let mut digits = [0u64; 16];
        for d in (0..len as usize).rev() {
            digits[d] = v % nsym;
            v /= nsym;
        }
        for d in digits.iter().take(len as usize) {
            let op = if family == 1 { sym_a(*d, &mut st) } else { st.rtp((*d / 2) as usize, EXP_SSRC, false, *d % 2 == 1) };
            p.ops.push(op);
        }
    }
}

fn gen_random(p: &mut Plan, r: &mut Rng, ridx: u64) {
    p.knobs.insert("enum".into(), 0);
    p.latency_us = [r.range(200, 4000), r.range(200, 4000)];
    p.sched.defer_pct = if r.chance(50) { 0 } else { r.range(1, 40) as u8 };
    let clean = r.chance(8);
    let prob = *r.pick(&[0i64, 0, 1, 1, 2, 2, 3, 3, 4, 5, 6, 6, 7, 8, 8]);
    let exp: i64 = if r.chance(30) { 0 } else { *r.pick(&[EXP_SSRC, EXP_SSRC, 1, 0xFFFF_FFFF, 0x8000_0000]) };
    let mux = r.chance(50);
    // the "remote not set yet" state (create_offer in RTP mode) gets a small dedicated share of the runs
    let unset = ridx % 256 == 7;
    let peer = if unset { AD_UNSET } else { *r.pick(&[AD_S, AD_S, AD_S, AD_S, AD_A, AD_A, AD_C, AD_M, AD_A2]) };
    p.knobs.insert("probation".into(), prob);
    p.knobs.insert("exp_ssrc".into(), exp);
    p.knobs.insert("mux".into(), (mux || unset) as i64);
    p.knobs.insert("peer".into(), peer);
    p.knobs.insert("clean".into(), clean as i64);

    // sources
    let pool = [AD_A, AD_C, AD_M, AD_A2, AD_C1, AD_M1];
    let nsrc = if clean { r.range(1, 2) } else { *r.pick(&[1u64, 2, 2, 3, 3, 3, 4, 5]) };
    let total_pk = if r.chance(40) { r.range(1, 12) } else { r.range(8, 60) };
    let jitter = if clean { 0 } else { *r.pick(&[0u64, 0, 5, 25, 60, 200]) };
    let dup_pct = if clean { 0 } else { *r.pick(&[0u64, 0, 5, 20]) };
    let mut timed: Vec<(u64, u64, Op)> = Vec::new(); // (arrival time, tie-break, op)
    let mut order = 0u64;
    let mut push = |timed: &mut Vec<(u64, u64, Op)>, t: u64, op: Op| {
        timed.push((t, order, op));
        order += 1;
    };
    let mut used: Vec<i64> = Vec::new();
    for k in 0..nsrc {
        let mut a = *r.pick(&pool);
        for _ in 0..4 {
            if used.contains(&a) {
                a = *r.pick(&pool);
            }
        }
        if used.contains(&a) {
            continue;
        }
        used.push(a);
        let legit_stream = exp == 0 || r.chance(70);
        let ssrc: i64 = if exp == 0 {
            *r.pick(&[EXP_SSRC, OTHER_SSRC, 1, 0xFFFF_FFFF, 0])
        } else if legit_stream {
            exp
        } else {
            *r.pick(&[OTHER_SSRC, exp ^ 1, exp.wrapping_add(1) & 0xFFFF_FFFF, 0])
        };
        let mut seq: u16 = match r.below(6) {
            0 => 0,
            1 => 65535,
            2 => 65534,
            3 => 65533,
            4 => 1000 + (k as u16) * 7,
            _ => r.below(65536) as u16,
        };
        let mut ts: u32 = if r.chance(15) { u32::MAX - 200 } else { r.below(1 << 32) as u32 };
        let marker_first = r.chance(40);
        let marker_pct = *r.pick(&[0u64, 0, 0, 5, 30]);
        let jump_pct = if clean { 0 } else { *r.pick(&[0u64, 0, 10, 40]) };
        let n = if k + 1 == nsrc { total_pk } else { r.range(1, total_pk.max(1)) }.min(60);
        let offset = *r.pick(&[0u64, 0, 0, 20, 40, 100, 400]);
        let pt = *r.pick(&SAFE_PT);
        let b0 = if r.chance(15) { *r.pick(&[0x10i64, 0x20, 0x01, 0x3f]) } else { 0 };
        for j in 0..n {
            if j > 0 && r.chance(jump_pct) {
                seq = match r.below(4) {
                    0 => seq.wrapping_sub(r.range(1, 5) as u16),
                    1 => seq.wrapping_add(1), // skip exactly one
                    2 => seq.wrapping_add(r.range(2, 3000) as u16),
                    _ => seq.wrapping_sub(1), // repeat the previous sequence number
                };
            }
            let marker = (j == 0 && marker_first) || r.chance(marker_pct);
            let t = offset + j * 20 + r.below(jitter + 1);
            let op = Op::new(0, "rtp", &[a, ssrc, seq as i64, marker as i64, ts as i64, pt, b0]);
            if r.chance(dup_pct) {
                push(&mut timed, t + r.below(80), op.clone());
            }
            push(&mut timed, t, op);
            seq = seq.wrapping_add(1);
            ts = ts.wrapping_add(160);
        }
    }
    let span = timed.iter().map(|x| x.0).max().unwrap_or(0) + 40;
    // RTCP, from RTP ports and from the usual RTP+1 ports
    let nrtcp = if clean { r.below(2) } else { *r.pick(&[0u64, 0, 1, 2, 3, 6]) };
    for _ in 0..nrtcp {
        let a = *r.pick(&[AD_A, AD_C, AD_M, AD_A1, AD_C1, AD_M1, AD_A2]);
        push(&mut timed, r.below(span), Op::new(0, "rtcp", &[a, if r.chance(60) { exp } else { OTHER_SSRC }, r.range(200, 207) as i64]));
    }
    if !clean {
        // an off-path sender with a convincing stream (marker, consecutive numbers) but the wrong SSRC, or runts / junk
        if r.chance(35) {
            let a = *r.pick(&[AD_M, AD_M1, AD_C1]);
            let mut seq = r.below(65536) as u16;
            let start = r.below(span);
            for j in 0..r.range(1, 6) {
                push(&mut timed, start + j * r.range(0, 20), Op::new(0, "rtp", &[a, OTHER_SSRC, seq as i64, 1, 0, 96, 0]));
                seq = seq.wrapping_add(1);
            }
        }
        for _ in 0..*r.pick(&[0u64, 0, 0, 1, 2]) {
            let a = *r.pick(&[AD_M, AD_M1, AD_A, AD_C]);
            let op = if r.chance(50) { Op::new(0, "runt", &[a, r.range(1, 11) as i64]) } else { Op::new(0, "junk", &[a, *r.pick(&[0i64, 1, 19, 20, 22, 23, 63, 64, 100, 127, 192, 200, 255]), *r.pick(&[1i64, 4, 12, 13, 40])]) };
            push(&mut timed, r.below(span), op);
        }
        // control ops
        for _ in 0..*r.pick(&[0u64, 0, 0, 1, 1, 2, 3]) {
            let op = match r.below(10) {
                0..=2 => Op::new(0, "reset", &[]),
                3..=5 => {
                    let a = *r.pick(&[AD_T, AD_T, AD_S, AD_A, AD_C, AD_M]);
                    let mode = if r.chance(50) { 0 } else if r.chance(70) { 1 } else { 2 };
                    let ss = if r.chance(60) { -1 } else { *r.pick(&[exp, EXP_SSRC, OTHER_SSRC, 0]) };
                    Op::new(0, "retarget", &[a, mode, ss, *r.pick(&[AD_A1, AD_C1, AD_M1])])
                }
                6..=8 => Op::new(0, "pairupd", &[*r.pick(&[AD_T, AD_S, AD_A, AD_C, AD_M, AD_A2])]),
                _ => Op::new(0, "ssrc", &[*r.pick(&[exp, EXP_SSRC, OTHER_SSRC, 0])]),
            };
            push(&mut timed, r.below(span), op);
        }
    }
    timed.sort_by_key(|x| (x.0, x.1));
    timed.truncate(72);
    let gap = p.latency_us[0].max(p.latency_us[1]).div_ceil(1000) + 2;
    for (i, (_, _, mut op)) in timed.into_iter().enumerate() {
        op.at_ms = 5 + i as u64 * gap;
        p.ops.push(op);
    }
}

pub fn generate(prop: &str, seed: u64, idx: u64, tier: Tier) -> Plan {
    let mut r = Rng::new(mix(mix(seed, idx), fnv(FNV0, prop.as_bytes())));
    let mut p = Plan { prop: prop.into(), scenario: "latch".into(), seed: r.next(), ..Default::default() };
    p.sched = Sched { rng_seed: r.next(), defer_pct: 0 };
    p.heal_at_ms = 0;
    let e = enum_blocks(tier);
    if idx < 2 * e && idx % 2 == 0 {
        gen_enum(&mut p, idx / 2, tier);
    } else {
        let ridx = if idx < 2 * e { idx / 2 } else { idx - e };
        gen_random(&mut p, &mut r, ridx);
    }
    p
}
