// (included into hostile.rs) plan generation: systematic core (each rig: each datagram class x each mutation family,
// each generated shape, each first-byte class, each SDP mutation kind) first, then swarm.
fn hop(kind: &str, at_ms: u64, a: [i64; 9]) -> Op {
    Op::new(at_ms, kind, &a)
}
fn push_op(p: &mut Plan, op: Op) {
    // an op that holds the genuine datagram needs the on-path Drop of exactly that datagram (re-injected by the harness)
    if op.kind != "sdp_mut" && op.arg(4) == 1 && op.arg(2) >= 0 {
        let tok = hold_token(&op.a);
        if !p.faults.iter().any(|r| r.class == tok) {
            p.faults.push(Rule { from: "*".into(), class: tok, ordinal: 0, action: Action::Drop });
        }
    }
    p.ops.push(op);
}

/// (victim, phase, class index) triples that exist on the wire of each rig
fn triggers(rig: i64) -> Vec<(i64, i64, i64)> {
    let mut t = Vec::new();
    match rig {
        0 => {
            // A = DTLS/SCTP client, B = server
            for (v, c) in [(1, 1), (0, 3), (0, 4), (0, 5), (0, 6), (1, 7), (1, 8), (0, 8), (1, 9), (0, 9), (1, 12), (0, 13), (1, 14), (0, 15), (1, 16), (0, 16), (0, 17), (1, 17)] {
                t.push((v, PH_HS, c));
            }
            for v in 0..2 {
                for c in [16, 17, 18, 19, 10] {
                    t.push((v, PH_EST, c));
                }
            }
            t.push((1, PH_CLOSING, 11));
            t.push((0, PH_CLOSING, 11));
        }
        1 => {
            for v in 0..2 {
                for c in [25, 26, 1, 3, 4, 5, 6, 7, 8, 9, 12, 13, 14, 15, 16, 17] {
                    t.push((v, PH_HS, c));
                }
                for c in [16, 17, 28, 29, 25, 26, 10] {
                    t.push((v, PH_EST, c));
                }
                t.push((v, PH_CLOSING, 11));
                t.push((v, PH_CLOSING, 29));
            }
        }
        _ => {
            for v in 0..2 {
                t.push((v, PH_EST, 28));
                t.push((v, PH_EST, 29));
                t.push((v, PH_CLOSING, 29));
            }
        }
    }
    t
}
fn sctp_bearing(c: i64) -> bool {
    (12..=24).contains(&c) || c == 10
}

#[derive(Clone)]
struct CoreCase {
    rig: i64,
    ops: Vec<Op>,
    knobs: Vec<(&'static str, i64)>,
}

fn core_cases() -> &'static Vec<CoreCase> {
    static CORE: std::sync::OnceLock<Vec<CoreCase>> = std::sync::OnceLock::new();
    CORE.get_or_init(|| {
        let mut v = Vec::new();
        let mut seed = 1000i64;
        let mut nx = || {
            seed += 7919;
            seed
        };
        for rig in 0..3i64 {
            let base_knobs: Vec<(&'static str, i64)> = match rig {
                0 => vec![("hb_ms", 60), ("est_ms", 260)],
                1 => vec![("est_ms", 260)],
                _ => vec![("est_ms", 200)],
            };
            for (vi, ph, c) in triggers(rig) {
                // fans: every family, mutants after the genuine datagram; for handshake-phase classes also while it is held
                for fam in 0..N_FAMILIES {
                    if fam == 5 && !(1..=9).contains(&c) {
                        continue; // re-fragmentation exists for DTLS handshake messages only
                    }
                    for pos in 0..2 {
                        if pos == 1 && ph == PH_CLOSING {
                            continue;
                        }
                        let bridge = if rig == 2 { [0, 1].to_vec() } else { vec![0] };
                        for br in bridge {
                            let mut kn = base_knobs.clone();
                            if rig == 2 {
                                kn.push(("bridge", br));
                            }
                            v.push(CoreCase { rig, ops: vec![hop("fan", 0, [vi, ph, c, if ph == PH_EST { 1 } else { 0 }, pos, fam, nx(), 12, 0])], knobs: kn });
                        }
                    }
                }
                if rig < 2 && sctp_bearing(c) && c != 10 {
                    for fam in 0..(8 + N_SCTP_VARIANTS as i64) {
                        v.push(CoreCase { rig, ops: vec![hop("sctp_mut", 0, [vi, ph, c, if ph == PH_EST { 1 } else { 0 }, 0, fam, nx(), 10, 0])], knobs: base_knobs.clone() });
                    }
                    // a few generated shapes also while the genuine packet is held (association still being set up)
                    if ph == PH_HS {
                        for fam in [8, 9, 10, 12, 15, 17, 18] {
                            v.push(CoreCase { rig, ops: vec![hop("sctp_mut", 0, [vi, ph, c, 0, 1, fam, nx(), 8, 0])], knobs: base_knobs.clone() });
                        }
                    }
                }
            }
            // third-host garbage of every first-byte class and generated packets, in every phase
            for ph in 0..4i64 {
                for vi in 0..2i64 {
                    if rig == 0 && ph == PH_PRE && vi == 0 {
                        continue; // only the server endpoint exists before the handshake starts
                    }
                    // anchor of phase-1 inputs: the first datagram of the handshake towards the victim is held meanwhile
                    let (cls, pos) = if ph == PH_HS {
                        match (rig, vi) {
                            (0, 1) => (1, 1),
                            (0, _) => (3, 1),
                            (1, _) => (26, 1),
                            _ => (-1, 0),
                        }
                    } else {
                        (-1, 0)
                    };
                    for fb in 0..8i64 {
                        for src in 0..2i64 {
                            v.push(CoreCase { rig, ops: vec![hop("garbage", 1, [vi, ph, cls, 0, pos, fb, nx(), 10, src])], knobs: base_knobs.clone() });
                            if rig == 1 && src == 0 {
                                // the answerer behind the single-port UDP mux (shared_udp.rs demultiplexer)
                                let mut kn = base_knobs.clone();
                                kn.push(("udpmux", 1));
                                v.push(CoreCase { rig, ops: vec![hop("garbage", 1, [vi, ph, cls, 0, pos, fb, nx(), 10, src])], knobs: kn });
                            }
                        }
                    }
                    let mut gens: Vec<i64> = Vec::new();
                    if rig < 2 {
                        gens.extend((0..N_DTLS_VARIANTS as i64).map(|x| x));
                    }
                    if rig == 1 {
                        gens.extend((0..N_STUN_VARIANTS as i64).map(|x| 100 + x));
                    }
                    if rig >= 1 {
                        gens.extend((0..N_RTP_VARIANTS as i64).map(|x| 200 + x));
                        gens.extend((0..N_RTCP_VARIANTS as i64).map(|x| 300 + x));
                    }
                    if rig == 2 {
                        // TURN-looking datagrams at a plain RTP port as well
                        gens.extend([105, 106, 109]);
                    }
                    for g in gens {
                        // RTP/RTCP must come from the peer's address to be attributed to its stream; others from the third host too
                        let srcs: Vec<i64> = if g >= 200 { vec![1] } else { vec![0, 1] };
                        for src in srcs {
                            let brs = if rig == 2 && g >= 200 && g < 300 { vec![0, 1] } else { vec![0] };
                            for br in brs {
                                let mut kn = base_knobs.clone();
                                if rig == 2 {
                                    kn.push(("bridge", br));
                                }
                                if rig == 1 && (100..200).contains(&g) && src == 0 {
                                    kn.push(("udpmux", 1));
                                }
                                // in the established phase the generated packets follow the first genuine media / data
                                let at = if ph == PH_EST { 30 } else { 1 };
                                v.push(CoreCase { rig, ops: vec![hop("gen", at, [vi, ph, cls, 0, pos, g, nx(), 12, src])], knobs: kn });
                            }
                        }
                    }
                }
            }
        }
        // rig 3: every SDP mutation kind x {offer, answer} x {fresh, connected} x transport mode; candidate strings
        for mode in 0..3i64 {
            for kind in 0..sdprig::SDP_KINDS.len() as i64 {
                for what in 0..2i64 {
                    for target in 0..2i64 {
                        v.push(CoreCase { rig: 3, ops: vec![Op::new(0, "sdp_mut", &[target, what, kind, nx(), 12])], knobs: vec![("mode", mode)] });
                    }
                }
            }
            for target in 0..2i64 {
                for _ in 0..3 {
                    v.push(CoreCase { rig: 3, ops: vec![Op::new(0, "sdp_mut", &[target, 2, 0, nx(), 24])], knobs: vec![("mode", mode)] });
                }
            }
        }
        v
    })
}

pub fn core_size() -> u64 {
    core_cases().len() as u64
}

pub fn generate(prop: &str, seed: u64, idx: u64, tier: Tier) -> Plan {
    let mut r = Rng::new(mix(mix(seed, idx), fnv(FNV0, prop.as_bytes())));
    let mut p = Plan { prop: prop.into(), scenario: "hostile".into(), seed: r.next(), ..Default::default() };
    p.heal_at_ms = 3_600_000;
    let core = core_cases();
    if (idx as usize) < core.len() {
        // systematic core: fixed link, no deferral; the op's seed still varies with the master seed
        let c = &core[idx as usize];
        p.latency_us = [1000, 1000];
        p.sched = Sched { rng_seed: r.next(), defer_pct: 0 };
        p.knobs.insert("rig".into(), c.rig);
        p.knobs.insert("core".into(), 1);
        for (k, v) in c.knobs.iter() {
            p.knobs.insert(k.to_string(), *v);
        }
        p.knobs.insert("offerer".into(), r.below(2) as i64);
        for o in c.ops.iter() {
            let mut o = o.clone();
            let si = if o.kind == "sdp_mut" { 3 } else { 6 };
            o.a[si] = (o.a[si] as u64 ^ (seed.wrapping_mul(0x9E37) & 0x3fff_ffff)) as i64;
            push_op(&mut p, o);
        }
        return p;
    }
    // ---- swarm
    p.latency_us = [*r.pick(&[200u64, 1000, 1000, 2000, 5000]), *r.pick(&[200u64, 1000, 1000, 2000, 5000])];
    p.sched = Sched { rng_seed: r.next(), defer_pct: if r.chance(65) { 0 } else { r.range(1, 25) as u8 } };
    let rig = match r.below(100) {
        0..=34 => 0,
        35..=62 => 1,
        63..=82 => 2,
        _ => 3,
    };
    p.knobs.insert("rig".into(), rig);
    p.knobs.insert("offerer".into(), r.below(2) as i64);
    if rig == 3 {
        p.knobs.insert("mode".into(), r.below(3) as i64);
        for _ in 0..r.range(1, 6) {
            let what = *r.pick(&[0i64, 0, 0, 1, 1, 2]);
            p.ops.push(Op::new(0, "sdp_mut", &[r.below(2) as i64, what, r.below(sdprig::SDP_KINDS.len() as u64) as i64, r.below(1 << 30) as i64, *r.pick(&[1i64, 4, 8, 16, 32])]));
        }
        return p;
    }
    p.knobs.insert("closer".into(), r.below(2) as i64);
    p.knobs.insert("msgs".into(), *r.pick(&[2i64, 6, 6, 12, 30]));
    p.knobs.insert("msg_gap_ms".into(), *r.pick(&[2i64, 10, 20, 20]));
    p.knobs.insert("est_ms".into(), *r.pick(&[120i64, 260, 260, 600, 1500]));
    if rig == 0 {
        p.knobs.insert("hb_ms".into(), *r.pick(&[40i64, 60, 200, 15000]));
        if r.chance(20) {
            p.knobs.insert("close_dtls".into(), 0);
        }
    }
    if rig == 1 && r.chance(30) {
        p.knobs.insert("udpmux".into(), 1);
    }
    if rig == 1 && r.chance(30) {
        p.knobs.insert("mix".into(), *r.pick(&[0i64, 3, 4]));
    }
    if rig == 2 {
        p.knobs.insert("bridge".into(), r.below(2) as i64);
        if r.chance(30) {
            p.knobs.insert("bridge_strip".into(), 1);
        }
        if r.chance(30) {
            p.knobs.insert("bridge_mid_ext".into(), *r.pick(&[0i64, 1, 14, 15, 16, 255]));
        }
        if r.chance(20) {
            p.knobs.insert("h264".into(), 0);
        }
    }
    if r.chance(10) {
        p.knobs.insert("close".into(), 0);
    }
    let trig = triggers(rig);
    let nops = if r.chance(7) { 0 } else { r.range(1, if tier == Tier::Thorough { 8 } else { 5 }) };
    for _ in 0..nops {
        let (vi, ph, c) = *r.pick(&trig);
        let count = *r.pick(&[1i64, 4, 8, 12, 16, 24]);
        let ord = if ph == PH_EST { *r.pick(&[0i64, 1, 2, 3, 5, 8]) } else { *r.pick(&[0i64, 0, 0, 1]) };
        let pos = if ph != PH_CLOSING && r.chance(40) { 1 } else { 0 };
        match r.below(100) {
            0..=44 => push_op(&mut p, hop("fan", 0, [vi, ph, c, ord, pos, r.below(N_FAMILIES as u64) as i64, r.below(1 << 30) as i64, count, 0])),
            45..=64 => {
                if rig < 2 {
                    let cands: Vec<&(i64, i64, i64)> = trig.iter().filter(|t| sctp_bearing(t.2) && t.2 != 10).collect();
                    let (vi, ph, c) = **r.pick(&cands);
                    let fam = if r.chance(40) { r.below(8) as i64 } else { 8 + r.below(2 * N_SCTP_VARIANTS) as i64 };
                    push_op(&mut p, hop("sctp_mut", 0, [vi, ph, c, if ph == PH_EST { ord } else { 0 }, if ph == PH_HS && r.chance(25) { 1 } else { 0 }, fam, r.below(1 << 30) as i64, count, 0]));
                } else {
                    push_op(&mut p, hop("gen", r.below(150), [vi, *r.pick(&[PH_PRE, PH_EST, PH_EST, PH_CLOSING]), -1, 0, 0, *r.pick(&[200i64, 300]) + r.below(14) as i64, r.below(1 << 30) as i64, count, 1]));
                }
            }
            65..=79 => {
                // timed or anchored garbage
                let anchored = r.chance(40);
                let phase = if anchored { ph } else { r.below(4) as i64 };
                push_op(&mut p, hop("garbage", r.below(150), [vi, phase, if anchored { c } else { -1 }, if anchored { ord } else { 0 }, if anchored { pos } else { 0 }, r.below(8) as i64, r.below(1 << 30) as i64, count, r.below(2) as i64]));
            }
            _ => {
                let anchored = r.chance(40);
                let phase = if anchored { ph } else { r.below(4) as i64 };
                let g = match rig {
                    0 => r.below(N_DTLS_VARIANTS) as i64,
                    1 => *r.pick(&[0i64, 100, 100, 200, 300]) + r.below(14) as i64,
                    _ => *r.pick(&[200i64, 200, 300, 100]) + r.below(14) as i64,
                };
                push_op(&mut p, hop("gen", r.below(150), [vi, phase, if anchored { c } else { -1 }, if anchored { ord } else { 0 }, if anchored { pos } else { 0 }, g, r.below(1 << 30) as i64, count, if g >= 200 { 1 } else { r.below(2) as i64 }]));
            }
        }
    }
    p
}

pub fn budget(_prop: &str, tier: Tier) -> u64 {
    match tier {
        Tier::Quick => core_size() + 120_000,
        Tier::Thorough => core_size() + 1_800_000,
    }
}
