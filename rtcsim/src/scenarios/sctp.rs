//! Scenario `sctp_layer`: two layer-rig endpoints (IceConn -> DTLS -> SCTP -> DataChannels),
//! message workload in both directions under an addressed fault plan.
//! Serves C01 (prefix/complete), C12 (boundary/order/open-close/params), C13 (wire rules).
use crate::monitor::{SctpPacket, WireOracle};
use crate::net::Shared;
use crate::plan::*;
use crate::rig::{dtls_state_name, layer_ep};
use crate::sim::Ctx;
use rustrtc::transports::sctp::{DataChannel, DataChannelConfig, DataChannelEvent, SctpTransport};
use rustrtc::verif_hooks as vh;
use rustrtc::RtcConfiguration;
use std::collections::{BTreeMap, HashMap};
use std::sync::{Arc, Mutex};
use std::time::Duration;
use tokio::sync::{mpsc, watch};

#[derive(Clone, Copy, PartialEq, Debug)]
pub enum Mode {
    ReliableOrdered,
    ReliableUnordered,
    PrOrdered,
    PrUnordered,
}

#[derive(Clone, Debug)]
pub struct ChanSpec {
    pub id: u16,
    pub ordered: bool,
    pub max_retransmits: Option<u16>,
    pub max_life: Option<u16>,
    pub inband: bool,
    pub creator: usize,
    pub label: String,
    pub protocol: String,
    /// > 0: an in-band channel that its creator opens at this virtual time instead of before the association starts
    pub late_ms: u64,
}
impl ChanSpec {
    pub fn mode(&self) -> Mode {
        let pr = self.max_retransmits.is_some() || self.max_life.is_some();
        match (pr, self.ordered) {
            (false, true) => Mode::ReliableOrdered,
            (false, false) => Mode::ReliableUnordered,
            (true, true) => Mode::PrOrdered,
            (true, false) => Mode::PrUnordered,
        }
    }
}

/// knob ch{i}: bits 0-2 type (0 rel-ord,1 rel-unord,2 rexmit-ord,3 rexmit-unord,4 timed-ord,5 timed-unord), bit3 inband, bit4 creator=B
pub fn chan_specs(plan: &Plan) -> Vec<ChanSpec> {
    let n = plan.knob("nch", 1).clamp(1, 16) as usize;
    let mut next_id = [0u16, 1u16]; // in-band ids: even for the DTLS client (A), odd for B
    let mut out = Vec::new();
    let mut used: Vec<u16> = Vec::new();
    for i in 0..n {
        let code = plan.knob(&format!("ch{i}"), 0);
        let ty = code & 7;
        let inband = code & 8 != 0;
        let creator = if code & 16 != 0 { 1 } else { 0 };
        let pr = plan.knob(&format!("pr{i}"), 0).clamp(0, 65535) as u16;
        let id = if inband {
            let v = next_id[creator];
            next_id[creator] += 2;
            v
        } else {
            // negotiated ids live above the in-band range
            100 + i as u16
        };
        used.push(id);
        out.push(ChanSpec {
            id,
            ordered: ty % 2 == 0,
            max_retransmits: if ty == 2 || ty == 3 { Some(pr) } else { None },
            max_life: if ty == 4 || ty == 5 { Some(pr.max(1)) } else { None },
            inband,
            creator,
            label: format!("chan-{i}-{code}"),
            protocol: if i % 2 == 0 { String::new() } else { format!("proto{i}") },
            late_ms: plan.knob(&format!("late{i}"), 0).max(0) as u64,
        });
    }
    out
}

pub fn content(side: usize, ch: u16, sender: u8, idx: u32, len: usize) -> Vec<u8> {
    let mut v = vec![0u8; len];
    let mut r = Rng::new(mix(mix(ch as u64 + 1, side as u64 + 7), mix(sender as u64 + 3, idx as u64 + 11)));
    r.fill(&mut v);
    if len >= 12 {
        v[0..2].copy_from_slice(&ch.to_be_bytes());
        v[2] = side as u8;
        v[3] = sender;
        v[4..8].copy_from_slice(&idx.to_be_bytes());
        v[8..12].copy_from_slice(&(len as u32).to_be_bytes());
    }
    v
}

fn describe(b: &[u8]) -> String {
    if b.len() >= 12 {
        format!(
            "len={} hdr(ch={},side={},sender={},idx={},len={}) h={:08x}",
            b.len(),
            u16::from_be_bytes([b[0], b[1]]),
            b[2],
            b[3],
            u32::from_be_bytes([b[4], b[5], b[6], b[7]]),
            u32::from_be_bytes([b[8], b[9], b[10], b[11]]),
            fnv(FNV0, b) as u32
        )
    } else {
        format!("len={} bytes={:02x?}", b.len(), b)
    }
}

/// Per (receiving side, channel) oracle state.
struct RecvState {
    mode: Mode,
    /// planned messages per sender id on the *sending* side of this channel
    planned: BTreeMap<u8, Vec<Vec<u8>>>,
    cursor: BTreeMap<u8, usize>,
    used: BTreeMap<u8, Vec<bool>>,
    opens: u32,
    closes: u32,
    msgs: u32,
}

struct State {
    recv: HashMap<(usize, u16), RecvState>,
    /// (side, ch, sender) -> number of sends that returned Ok
    sent_ok: HashMap<(usize, u16, u8), u32>,
    send_err: u32,
    senders_running: u32,
    any_close: bool,
    /// (side, channel id): the side's application was handed this in-band channel
    announced: std::collections::HashSet<(usize, u16)>,
}

fn on_event(ctx: &CtxLite, st: &Arc<Mutex<State>>, side: usize, ch: u16, ev: Option<DataChannelEvent>) {
    let mut s = st.lock().unwrap();
    let who = if side == 0 { "A" } else { "B" };
    let mut viol: Vec<(String, String)> = Vec::new();
    let mut closed = false;
    {
        let Some(rs) = s.recv.get_mut(&(side, ch)) else { return };
        match ev {
            Some(DataChannelEvent::Open) => {
                rs.opens += 1;
                ctx.ev(&format!("app {who} ch{ch} Open"), "");
                if rs.opens > 1 {
                    viol.push(("C12.open-close".into(), format!("side {who} channel {ch}: Open delivered {} times", rs.opens)));
                }
                if rs.msgs > 0 && rs.opens == 1 {
                    viol.push(("C12.open-close".into(), format!("side {who} channel {ch}: Open after {} messages", rs.msgs)));
                }
            }
            Some(DataChannelEvent::Close) => {
                rs.closes += 1;
                closed = true;
                ctx.ev(&format!("app {who} ch{ch} Close"), "");
                if rs.closes > 1 {
                    viol.push(("C12.open-close".into(), format!("side {who} channel {ch}: Close delivered {} times", rs.closes)));
                }
            }
            None => {
                ctx.ev(&format!("app {who} ch{ch} stream-end"), "");
                closed = true;
            }
            Some(DataChannelEvent::Message(m)) => {
                rs.msgs += 1;
                if rs.opens == 0 {
                    viol.push(("C12.open-close".into(), format!("side {who} channel {ch}: message before Open")));
                }
                let b: &[u8] = &m;
                // attribute to a sender
                let sender: Option<u8> = if rs.planned.len() == 1 {
                    rs.planned.keys().next().copied()
                } else if b.len() >= 12 && rs.planned.contains_key(&b[3]) {
                    Some(b[3])
                } else {
                    None
                };
                ctx.ev(&format!("app {who} ch{ch} Message"), &describe(b));
                match sender {
                    None => viol.push(("C12.boundary".into(), format!("side {who} ch {ch}: delivered message matches no sender: {}", describe(b)))),
                    Some(sd) => {
                        let list = rs.planned.get(&sd).unwrap();
                        let cur = rs.cursor.entry(sd).or_insert(0);
                        let used = rs.used.entry(sd).or_insert_with(|| vec![false; list.len()]);
                        match rs.mode {
                            Mode::ReliableOrdered => {
                                if list.get(*cur).map(|x| x.as_slice() == b).unwrap_or(false) {
                                    used[*cur] = true;
                                    *cur += 1;
                                } else {
                                    let exp = list.get(*cur).map(|x| describe(x)).unwrap_or_else(|| "<nothing more submitted>".into());
                                    let d = format!("side {who} ch {ch} sender {sd}: delivered[{}] = {} but submitted[{}] = {}", *cur, describe(b), *cur, exp);
                                    viol.push(("C01.prefix".into(), d.clone()));
                                    let earlier = list.iter().take(*cur).any(|x| x.as_slice() == b);
                                    let known = list.iter().any(|x| x.as_slice() == b);
                                    viol.push((if known { "C12.order" } else { "C12.boundary" }.into(), format!("{d}{}", if earlier { " (duplicate of an already delivered message)" } else { "" })));
                                    // resynchronise so one slip is reported once
                                    if let Some(k) = list.iter().skip(*cur).position(|x| x.as_slice() == b) {
                                        *cur += k + 1;
                                    }
                                }
                            }
                            Mode::PrOrdered => {
                                if let Some(k) = list.iter().skip(*cur).position(|x| x.as_slice() == b) {
                                    used[*cur + k] = true;
                                    *cur += k + 1;
                                } else if list.iter().any(|x| x.as_slice() == b) {
                                    viol.push(("C12.order".into(), format!("side {who} ch {ch} sender {sd}: ordered partially-reliable channel delivered {} out of order or twice (cursor {})", describe(b), *cur)));
                                } else {
                                    viol.push(("C12.boundary".into(), format!("side {who} ch {ch} sender {sd}: delivered message equals no submitted message: {}", describe(b))));
                                }
                            }
                            Mode::ReliableUnordered | Mode::PrUnordered => {
                                if let Some(k) = (0..list.len()).find(|k| !used[*k] && list[*k].as_slice() == b) {
                                    used[k] = true;
                                } else if list.iter().any(|x| x.as_slice() == b) {
                                    viol.push(("C12.boundary".into(), format!("side {who} ch {ch} sender {sd}: message delivered more often than submitted (duplicate): {}", describe(b))));
                                } else {
                                    viol.push(("C12.boundary".into(), format!("side {who} ch {ch} sender {sd}: delivered message equals no submitted message: {}", describe(b))));
                                }
                            }
                        }
                    }
                }
            }
        }
    }
    if closed {
        s.any_close = true;
    }
    drop(s);
    for (o, d) in viol {
        ctx.violate(&o, d);
    }
}

// ---------------------------------------------------------------------------
// C13 wire oracle
// ---------------------------------------------------------------------------
fn sgt(a: u32, b: u32) -> bool {
    (a.wrapping_sub(b) as i32) > 0
}
fn sge(a: u32, b: u32) -> bool {
    a == b || sgt(a, b)
}

#[derive(Default)]
struct HostWire {
    my_tag: Option<u32>,
    init_tsn: Option<u32>,
    /// highest TSN transmitted for the first time
    hi: Option<u32>,
    /// TSN -> user bytes, for DATA sent and not yet covered by a delivered SACK (cum or gap)
    outstanding: BTreeMap<u32, (usize, f64)>,
    /// TSNs of this host that reached the peer's socket
    delivered: std::collections::BTreeSet<u32>,
    /// highest TSN reported in a gap-ack block delivered to this host
    max_gap_acked: Option<u32>,
    /// highest cumulative ack delivered to this host, with the virtual time of delivery
    cum_acked: Option<(u32, f64)>,
    last_arwnd: Option<(u32, f64)>,
    last_arwnd_cum: Option<u32>,
    data_pkts: u64,
    rtx: u64,
    zero_window_seen: bool,
    /// latest instant at which some outstanding chunk of this host was old enough for its T3 to have fired: rustrtc's
    /// T3 handler credits EVERY outstanding chunk (flight counter reset), also the young ones - a chunk first sent
    /// before this instant may have been credited even if the old chunk has been acknowledged since
    t3_possible_at: f64,
}

pub struct WireState {
    hosts: HashMap<String, HostWire>,
    /// the smallest RTO a T3 timer can run with: min(rto_min, rto_initial) - until the first RTT sample the transport
    /// uses rto_initial as it is, also when that is below rto_min
    rto_min_ms: f64,
    latency_ms: [f64; 2],
    /// streams whose chunks can be abandoned by the sender at any time (partial reliability)
    pr_streams: std::collections::BTreeSet<u16>,
    /// set by the scenario when every submitted message was delivered and acked
    quiet_from: Option<f64>,
    pub enabled: bool,
}

pub struct SctpWireOracle(pub Arc<Mutex<WireState>>);

fn peer_of(h: &str) -> &'static str {
    if h == "A" { "B" } else { "A" }
}

impl WireOracle for SctpWireOracle {
    fn on_sctp(&mut self, from: &str, pkt: &SctpPacket, sh: &mut Shared) {
        let mut ws = self.0.lock().unwrap();
        if !ws.enabled || (from != "A" && from != "B") || sh.cur_injected {
            return;
        }
        let now = sh.now_ms();
        if std::env::var("VERIF_DUMP_SCTP").is_ok() {
            // debugging aid (never set by a check): chunk contents as the sender put them on the wire
            for c in pkt.chunks.iter() {
                let v = &c.value;
                let u = |o: usize| if v.len() >= o + 4 { u32::from_be_bytes([v[o], v[o + 1], v[o + 2], v[o + 3]]) } else { 0 };
                let d = match c.ty {
                    0 => format!("DATA tsn={} sid={} ssn={} flags={:02x} len={}", u(0), u(4) >> 16, u(4) & 0xffff, c.flags, v.len().saturating_sub(12)),
                    3 => format!("SACK cum={} arwnd={} ngap={} ndup={} gaps={:?}", u(0), u(4), u(8) >> 16, u(8) & 0xffff, (0..(u(8) >> 16) as usize).map(|i| (u(12 + 4 * i) >> 16, u(12 + 4 * i) & 0xffff)).collect::<Vec<_>>()),
                    192 => format!("FWD new_cum={} pairs={:?}", u(0), (0..v.len().saturating_sub(4) / 4).map(|i| (u(4 + 4 * i) >> 16, u(4 + 4 * i) & 0xffff)).collect::<Vec<_>>()),
                    t => format!("chunk type {t}"),
                };
                sh.event(&format!("dump {from}"), &d);
            }
        }
        if pkt.len > 1200 {
            sh.violate("C13.size", format!("{from} emitted an SCTP packet of {} bytes (> 1200)", pkt.len));
        }
        if !pkt.crc_ok {
            sh.violate("C13.crc", format!("{from} emitted an SCTP packet with a wrong CRC32c ({:08x})", pkt.checksum));
        }
        let has = |t: u8| pkt.chunks.iter().any(|c| c.ty == t);
        // learn tags
        for c in pkt.chunks.iter() {
            if (c.ty == 1 || c.ty == 2) && c.value.len() >= 16 {
                let tag = u32::from_be_bytes([c.value[0], c.value[1], c.value[2], c.value[3]]);
                let tsn = u32::from_be_bytes([c.value[12], c.value[13], c.value[14], c.value[15]]);
                let hw = ws.hosts.entry(from.to_string()).or_default();
                hw.my_tag = Some(tag);
                // a (re)announced initial TSN restarts the first-transmission sequence
                if hw.init_tsn != Some(tsn) {
                    hw.init_tsn = Some(tsn);
                    hw.hi = None;
                }
            }
        }
        // verification tag
        let peer_tag = ws.hosts.get(peer_of(from)).and_then(|h| h.my_tag);
        if has(1) {
            if pkt.vtag != 0 {
                sh.violate("C13.vtag", format!("{from} sent INIT with verification tag {:08x} (must be 0)", pkt.vtag));
            }
        } else if !(has(6) && pkt.chunks.iter().any(|c| c.ty == 6 && c.flags & 1 != 0)) {
            if let Some(pt) = peer_tag {
                if pkt.vtag != pt {
                    sh.violate(
                        "C13.vtag",
                        format!("{from} sent {:?} with verification tag {:08x}, peer announced {:08x}", pkt.chunks.iter().map(|c| crate::monitor::chunk_name(c.ty)).collect::<Vec<_>>(), pkt.vtag, pt),
                    );
                }
            }
        }
        let quiet_from = ws.quiet_from;
        // (the transport stamps a chunk when it queues it for sending, a little before the monitor sees the datagram, and its
        // timer has its own granularity: a T3 can fire when the monitor's clock says the chunk is up to 2 ms short of rto_min)
        let rto_min = (ws.rto_min_ms - 2.0).max(1.0);
        let pr_streams = ws.pr_streams.clone();
        let lat = if from == "A" { ws.latency_ms[0] } else { ws.latency_ms[1] };
        let hw = ws.hosts.entry(from.to_string()).or_default();
        for c in pkt.chunks.iter() {
            if c.ty == 0 && c.value.len() >= 12 {
                let tsn = u32::from_be_bytes([c.value[0], c.value[1], c.value[2], c.value[3]]);
                let user = c.value.len() - 12;
                hw.data_pkts += 1;
                let is_new = match hw.hi {
                    None => true,
                    Some(h) => sgt(tsn, h),
                };
                if is_new {
                    let expect = match hw.hi {
                        None => hw.init_tsn,
                        Some(h) => Some(h.wrapping_add(1)),
                    };
                    if let Some(e) = expect {
                        if tsn != e {
                            sh.violate("C13.tsn-seq", format!("{from} first transmission of TSN {tsn} but previous new TSN was {:?} (expected {e})", hw.hi));
                        }
                    }
                    // Window rule (C13.rwnd). To stay no stricter than RFC 4960 6.2.1 accounting, an outstanding
                    // chunk is counted against the last delivered a_rwnd only if the sender has no legitimate
                    // reason to consider it lost: it is younger than rto_min (no T3 can have fired for it), it
                    // lies above every gap-acked TSN (no missing report), and it either reached the peer's
                    // socket or is still within the unfaulted one-way latency (so the network did not drop or
                    // delay it).
                    if let Some((arwnd, t)) = hw.last_arwnd {
                        if now > t {
                            if arwnd == 0 {
                                hw.zero_window_seen = true;
                            }
                            let mga = hw.max_gap_acked;
                            // a T3 expiry marks *every* outstanding chunk for retransmission (and credits the window),
                            // so the rule is only evaluated while no outstanding chunk is old enough for T3 to have fired
                            let t3_possible = hw.outstanding.values().any(|(_, first)| now - *first >= rto_min);
                            if t3_possible {
                                hw.t3_possible_at = now;
                            }
                            let t3_mark = hw.t3_possible_at;
                            let strict: usize = hw
                                .outstanding
                                .iter()
                                .filter(|(k, (_, first))| {
                                    let age = now - *first;
                                    // (and it was first sent after the last instant at which a T3 - which credits every
                                    // outstanding chunk, young ones included - could have fired)
                                    age < rto_min && *first > t3_mark && (hw.delivered.contains(*k) || age <= lat + 0.5) && mga.map(|g| sgt(**k, g)).unwrap_or(true)
                                })
                                .map(|(_, (b, _))| *b)
                                .sum();
                            // slack: the one packet the statement allows plus one packet of accounting granularity
                            // (the sender tests the window before each chunk and counts wire bytes, the a_rwnd unit is
                            // user bytes), see DESIGN.md 'false alarms corrected'
                            // with partially-reliable streams the sender may abandon chunks (and the receiver's cumulative
                            // point may move by FORWARD-TSN) at any time: the rule is only evaluated on all-reliable plans
                            // rustrtc's sender resets its flight counter on T3 and clocks new data out in bursts, so a modest
                            // overshoot of a large window is by design; the rule demands what the statement is about: a small or
                            // closed window must stop new data (slack: two packets, or half the window if that is larger)
                            let slack = (2 * 1200usize).max(arwnd as usize / 2);
                            if !t3_possible && pr_streams.is_empty() && strict > arwnd as usize + slack {
                                let out: usize = hw.outstanding.values().map(|(b, _)| *b).sum();
                                sh.violate(
                                    "C13.rwnd",
                                    format!("{from} sent new DATA TSN {tsn} ({user} B) while {strict} B that it has no reason to consider lost were outstanding ({out} B un-acked in total); last delivered a_rwnd={arwnd} (at {t:.3} ms, now {now:.3} ms)"),
                                );
                            }
                        }
                    }
                    hw.hi = Some(tsn);
                    let sid = u16::from_be_bytes([c.value[4], c.value[5]]);
                    // abandoned PR chunks are credited back by the sender before the FORWARD-TSN is visible: never count them
                    hw.outstanding.insert(tsn, (if pr_streams.contains(&sid) { 0 } else { user }, now));
                } else {
                    hw.rtx += 1;
                    sh.stat("probe.sctp_rtx", 1);
                    if let Some((ca, t)) = hw.cum_acked {
                        if sge(ca, tsn) && now > t {
                            sh.violate(
                                "C13.no-rtx-after-ack",
                                format!("{from} retransmitted TSN {tsn} at {now:.3} ms although a SACK with cumulative ack {ca} was delivered to it at {t:.3} ms"),
                            );
                        }
                    }
                }
            }
        }
        if let Some(q) = quiet_from {
            if now > q {
                let noisy: Vec<&str> = pkt.chunks.iter().filter(|c| !matches!(c.ty, 3 | 4 | 5)).map(|c| crate::monitor::chunk_name(c.ty)).collect();
                if !noisy.is_empty() {
                    sh.violate("C13.quiet", format!("{from} sent {noisy:?} at {now:.3} ms although everything submitted was acknowledged by {q:.3} ms"));
                }
            }
        }
    }

    fn on_sctp_deliver(&mut self, from: &str, pkt: &SctpPacket, sh: &mut Shared) {
        let mut ws = self.0.lock().unwrap();
        if !ws.enabled || (from != "A" && from != "B") {
            return;
        }
        let now = sh.now_ms();
        let to = peer_of(from);
        for c in pkt.chunks.iter() {
            if c.ty == 0 && c.value.len() >= 12 {
                let tsn = u32::from_be_bytes([c.value[0], c.value[1], c.value[2], c.value[3]]);
                ws.hosts.entry(from.to_string()).or_default().delivered.insert(tsn);
            }
            if c.ty == 3 && c.value.len() >= 12 {
                let cum = u32::from_be_bytes([c.value[0], c.value[1], c.value[2], c.value[3]]);
                let arwnd = u32::from_be_bytes([c.value[4], c.value[5], c.value[6], c.value[7]]);
                let ngap = u16::from_be_bytes([c.value[8], c.value[9]]) as usize;
                let ws_rto_min = (ws.rto_min_ms - 2.0).max(1.0);
                let hw = ws.hosts.entry(to.to_string()).or_default();
                // ignore SACKs that do not refer to this host's TSN space at all (stale association)
                let plausible = match (hw.init_tsn, hw.hi) {
                    (Some(i), Some(h)) => sge(cum, i.wrapping_sub(1)) && sge(h, cum),
                    (Some(i), None) => cum == i.wrapping_sub(1),
                    _ => false,
                };
                if !plausible {
                    continue;
                }
                let newer = match hw.cum_acked {
                    None => true,
                    Some((c0, _)) => sgt(cum, c0),
                };
                if newer {
                    hw.cum_acked = Some((cum, now));
                }
                let stale = matches!(hw.cum_acked, Some((c0, _)) if sgt(c0, cum));
                if !stale {
                    // SACKs carrying the same cumulative ack may be reordered among themselves: keep the larger window
                    let w = match (hw.last_arwnd, hw.last_arwnd_cum) {
                        (Some((w0, _)), Some(c0)) if c0 == cum => w0.max(arwnd),
                        _ => arwnd,
                    };
                    hw.last_arwnd = Some((w, now));
                    hw.last_arwnd_cum = Some(cum);
                    if arwnd == 0 {
                        sh.stat("probe.zero_window_sack", 1);
                    }
                    // (before the acknowledged chunks leave the books: was one of them old enough for T3?)
                    if hw.outstanding.values().any(|(_, first)| now - *first >= ws_rto_min) {
                        hw.t3_possible_at = now;
                    }
                    let keys: Vec<u32> = hw.outstanding.keys().copied().collect();
                    for k in keys {
                        if sge(cum, k) {
                            hw.outstanding.remove(&k);
                        }
                    }
                    let mut off = 12;
                    for _ in 0..ngap {
                        if off + 4 > c.value.len() {
                            break;
                        }
                        let s = u16::from_be_bytes([c.value[off], c.value[off + 1]]) as u32;
                        let e = u16::from_be_bytes([c.value[off + 2], c.value[off + 3]]) as u32;
                        for d in s..=e {
                            hw.outstanding.remove(&cum.wrapping_add(d));
                        }
                        let top = cum.wrapping_add(e);
                        if hw.max_gap_acked.map(|g| sgt(top, g)).unwrap_or(true) {
                            hw.max_gap_acked = Some(top);
                        }
                        off += 4;
                    }
                }
            }
        }
    }
}

// ---------------------------------------------------------------------------
// the scenario
// ---------------------------------------------------------------------------
struct Side {
    sctp: Arc<SctpTransport>,
    chans: HashMap<u16, Arc<DataChannel>>,
    open_rx: HashMap<u16, watch::Receiver<bool>>,
}

pub async fn run(ctx: &Ctx) {
    let plan = &ctx.plan;
    let specs = chan_specs(plan);
    let mut cfg = RtcConfiguration::default();
    cfg.sctp_rto_initial = Duration::from_millis(plan.knob("rto_initial_ms", 3000) as u64);
    cfg.sctp_rto_min = Duration::from_millis(plan.knob("rto_min_ms", 200) as u64);
    cfg.sctp_rto_max = Duration::from_millis(plan.knob("rto_max_ms", 60000) as u64);
    cfg.sctp_receive_window = plan.knob("rwnd", 128 * 1024) as usize;
    cfg.sctp_max_burst = plan.knob("max_burst", 0) as usize;
    cfg.sctp_max_cwnd = plan.knob("max_cwnd", 256 * 1024) as usize;
    cfg.sctp_heartbeat_interval = Duration::from_millis(plan.knob("hb_ms", 15000) as u64);
    cfg.sctp_max_buffered_amount = plan.knob("max_buffered", 256 * 1024) as usize;
    let tsn = plan.knob("tsn", -1);
    if tsn >= 0 {
        vh::set_initial_tsn_override(Some(tsn as u32));
    }

    // wire oracle
    let wire = Arc::new(Mutex::new(WireState { hosts: HashMap::new(), rto_min_ms: (plan.knob("rto_min_ms", 200) as f64).min(plan.knob("rto_initial_ms", 3000) as f64), latency_ms: [plan.latency_us[0] as f64 / 1000.0, plan.latency_us[1] as f64 / 1000.0], pr_streams: specs.iter().filter(|s| s.max_retransmits.is_some() || s.max_life.is_some()).map(|s| s.id).collect(), quiet_from: None, enabled: true }));
    {
        let mut m = crate::monitor::StdMonitor::new(ctx.keys.clone());
        m.oracles.push(Box::new(SctpWireOracle(wire.clone())));
        ctx.net.set_monitor(Box::new(m));
    }

    // planned messages
    let mut planned: HashMap<(usize, u16), BTreeMap<u8, Vec<Vec<u8>>>> = HashMap::new();
    let mut sender_ops: BTreeMap<(usize, u16, u8), Vec<(u64, u32, usize)>> = BTreeMap::new();
    let mut close_ops: Vec<(u64, usize, u16)> = Vec::new();
    for op in plan.ops.iter() {
        match op.kind.as_str() {
            "send" => {
                let (side, chi, sender, len) = (op.arg(0) as usize & 1, op.arg(1) as usize, op.arg(2) as u8, op.arg(3).max(0) as usize);
                let Some(spec) = specs.get(chi) else { continue };
                let list = sender_ops.entry((side, spec.id, sender)).or_default();
                let idx = list.len() as u32;
                list.push((op.at_ms, idx, len));
                planned.entry((side, spec.id)).or_default().entry(sender).or_default().push(content(side, spec.id, sender, idx, len));
            }
            "close_ch" => {
                if let Some(spec) = specs.get(op.arg(1) as usize) {
                    close_ops.push((op.at_ms, op.arg(0) as usize & 1, spec.id));
                }
            }
            _ => {}
        }
    }
    let st = Arc::new(Mutex::new(State { recv: HashMap::new(), sent_ok: HashMap::new(), send_err: 0, senders_running: 0, any_close: false, announced: std::collections::HashSet::new() }));
    for spec in specs.iter() {
        for side in 0..2usize {
            // receiver on `side` gets what the other side planned
            let p = planned.get(&(1 - side, spec.id)).cloned().unwrap_or_default();
            st.lock().unwrap().recv.insert((side, spec.id), RecvState { mode: spec.mode(), planned: p, cursor: BTreeMap::new(), used: BTreeMap::new(), opens: 0, closes: 0, msgs: 0 });
        }
    }

    // endpoints: A is the DTLS/SCTP client
    let mut ea = layer_ep(ctx, "A", "B", true, 0, None).await;
    let mut eb = layer_ep(ctx, "B", "A", false, 1, None).await;
    let mut sides: Vec<Side> = Vec::new();
    let mut aux_tasks = Vec::new();
    let mut eps = [&mut ea, &mut eb];
    for (side, ep) in eps.iter_mut().enumerate() {
        let dcs = Arc::new(parking_lot::Mutex::new(Vec::new()));
        let mut late: Vec<ChanSpec> = Vec::new();
        let mut chans = HashMap::new();
        let mut open_rx = HashMap::new();
        let mut open_tx: HashMap<u16, watch::Sender<bool>> = HashMap::new();
        for spec in specs.iter() {
            let (tx, rx) = watch::channel(false);
            open_tx.insert(spec.id, tx);
            open_rx.insert(spec.id, rx);
            if spec.inband && spec.creator != side {
                continue; // will arrive through DCEP
            }
            if spec.late_ms > 0 {
                // created by the application while the association is in use (in-band: by its creator only;
                // pre-negotiated: by both applications, the `creator` - the side that sends first - a little later)
                late.push(spec.clone());
                continue;
            }
            let dc = Arc::new(DataChannel::new(
                spec.id,
                DataChannelConfig {
                    label: spec.label.clone(),
                    protocol: spec.protocol.clone(),
                    ordered: spec.ordered,
                    max_retransmits: spec.max_retransmits,
                    max_packet_life_time: spec.max_life,
                    max_payload_size: None,
                    negotiated: if spec.inband { None } else { Some(spec.id) },
                },
            ));
            dcs.lock().push(Arc::downgrade(&dc));
            chans.insert(spec.id, dc);
        }
        let (ndc_tx, mut ndc_rx) = mpsc::unbounded_channel::<Arc<DataChannel>>();
        let dcs_list = dcs.clone();
        let (sctp, runner) = SctpTransport::new(ep.dtls.clone(), ep.incoming.take().unwrap(), dcs, 5000, 5000, Some(ndc_tx), ep.is_client, &cfg);
        ep.tasks.push(tokio::spawn(vh::wrap_task(runner)));
        let open_tx = Arc::new(open_tx);
        // receiver tasks for locally created channels
        let spawn_recv = {
            let st = st.clone();
            let open_tx = open_tx.clone();
            move |ctx: &Ctx, dc: Arc<DataChannel>| {
                let st = st.clone();
                let open_tx = open_tx.clone();
                let c = CtxLite { sh: ctx.sh.clone() };
                tokio::spawn(vh::wrap_task(async move {
                    loop {
                        let ev = dc.recv().await;
                        let end = ev.is_none();
                        if let Some(DataChannelEvent::Open) = &ev {
                            if let Some(t) = open_tx.get(&dc.id) {
                                let _ = t.send(true);
                            }
                        }
                        on_event_lite(&c, &st, side, dc.id, ev);
                        if end {
                            break;
                        }
                    }
                }))
            }
        };
        for dc in chans.values() {
            aux_tasks.push(spawn_recv(ctx, dc.clone()));
        }
        // channels the application opens in-band later, exactly as PeerConnection::create_data_channel does on a
        // live association: register the channel, then send DCEP OPEN
        for spec in late {
            let sctp2 = sctp.clone();
            let list = dcs_list.clone();
            let c = CtxLite { sh: ctx.sh.clone() };
            let st2 = st.clone();
            let open_tx2 = open_tx.clone();
            let open_tx3 = open_tx.clone();
            let keep_late: Arc<Mutex<Vec<Arc<DataChannel>>>> = Arc::new(Mutex::new(Vec::new()));
            aux_tasks.push(tokio::spawn(vh::wrap_task(async move {
                let t0 = c.sh.lock().unwrap().t0;
                // a pre-negotiated channel must exist at the receiver before the first message can arrive
                let skew = if !spec.inband && spec.creator == side { 400 } else { 0 };
                tokio::time::sleep_until(t0 + Duration::from_millis(spec.late_ms + skew)).await;
                let dc = Arc::new(DataChannel::new(
                    spec.id,
                    DataChannelConfig { label: spec.label.clone(), protocol: spec.protocol.clone(), ordered: spec.ordered, max_retransmits: spec.max_retransmits, max_packet_life_time: spec.max_life, max_payload_size: None, negotiated: if spec.inband { None } else { Some(spec.id) } },
                ));
                list.lock().push(Arc::downgrade(&dc));
                keep_late.lock().unwrap().push(dc.clone());
                c.ev(&format!("api {} {} ch{}", if side == 0 { "A" } else { "B" }, if spec.inband { "open in-band" } else { "register pre-negotiated" }, spec.id), "");
                let dc2 = dc.clone();
                let rd = tokio::spawn(vh::wrap_task(async move {
                    loop {
                        let ev = dc2.recv().await;
                        let end = ev.is_none();
                        if let Some(DataChannelEvent::Open) = &ev {
                            if let Some(t) = open_tx2.get(&dc2.id) {
                                let _ = t.send(true);
                            }
                        }
                        on_event_lite(&CtxLite { sh: c.sh.clone() }, &st2, side, dc2.id, ev);
                        if end {
                            break;
                        }
                    }
                }));
                if spec.inband {
                    let _ = sctp2.send_dcep_open(&dc).await;
                } else if spec.creator == side {
                    // nothing announces Open for a channel registered on a live association until a message arrives:
                    // the application that wants to talk first simply starts sending
                    if let Some(t) = open_tx3.get(&spec.id) {
                        let _ = t.send(true);
                    }
                }
                let _ = rd.await;
            })));
        }
        // in-band arrivals
        {
            let st = st.clone();
            let specs = specs.clone();
            let c = CtxLite { sh: ctx.sh.clone() };
            let open_tx = open_tx.clone();
            let keep: Arc<Mutex<Vec<Arc<DataChannel>>>> = Arc::new(Mutex::new(Vec::new()));
            aux_tasks.push(tokio::spawn(vh::wrap_task(async move {
                while let Some(dc) = ndc_rx.recv().await {
                    let who = if side == 0 { "A" } else { "B" };
                    c.ev(&format!("app {who} in-band channel {}", dc.id), &format!("label={} proto={} ordered={} rtx={:?} life={:?}", dc.label, dc.protocol, dc.ordered, dc.max_retransmits, dc.max_packet_life_time));
                    match specs.iter().find(|s| s.id == dc.id && s.inband && s.creator != side) {
                        None => c.violate("C12.params", format!("side {who}: in-band channel id {} announced but the peer created no such channel", dc.id)),
                        Some(s) => {
                            if dc.label != s.label || dc.protocol != s.protocol || dc.ordered != s.ordered || dc.max_retransmits != s.max_retransmits || dc.max_packet_life_time != s.max_life {
                                c.violate(
                                    "C12.params",
                                    format!(
                                        "side {who} channel {}: announced (label={:?}, protocol={:?}, ordered={}, max_retransmits={:?}, max_packet_life_time={:?}) but created with (label={:?}, protocol={:?}, ordered={}, max_retransmits={:?}, max_packet_life_time={:?})",
                                        dc.id, dc.label, dc.protocol, dc.ordered, dc.max_retransmits, dc.max_packet_life_time, s.label, s.protocol, s.ordered, s.max_retransmits, s.max_life
                                    ),
                                );
                            }
                        }
                    }
                    keep.lock().unwrap().push(dc.clone());
                    st.lock().unwrap().announced.insert((side, dc.id));
                    let st = st.clone();
                    let c2 = CtxLite { sh: c.sh.clone() };
                    let open_tx = open_tx.clone();
                    tokio::spawn(vh::wrap_task(async move {
                        loop {
                            let ev = dc.recv().await;
                            let end = ev.is_none();
                            if let Some(DataChannelEvent::Open) = &ev {
                                if let Some(t) = open_tx.get(&dc.id) {
                                    let _ = t.send(true);
                                }
                            }
                            on_event_lite(&c2, &st, side, dc.id, ev);
                            if end {
                                break;
                            }
                        }
                    }));
                }
            })));
        }
        sides.push(Side { sctp, chans, open_rx });
    }

    // sender tasks
    let mut sender_handles = Vec::new();
    for ((side, ch, sender), list) in sender_ops.iter() {
        let sctp = sides[*side].sctp.clone();
        let mut open = sides[*side].open_rx.get(ch).unwrap().clone();
        let st2 = st.clone();
        let c = CtxLite { sh: ctx.sh.clone() };
        let (side, ch, sender, list) = (*side, *ch, *sender, list.clone());
        let early = plan.knob("early_send", 0) == 1 && specs.iter().any(|sp| sp.id == ch && sp.inband && sp.creator == side && sp.late_ms == 0);
        st.lock().unwrap().senders_running += 1;
        sender_handles.push(tokio::spawn(vh::wrap_task(async move {
            let who = if side == 0 { "A" } else { "B" };
            // an application sends once its channel reported Open - or (knob early_send, creator of an in-band channel) as
            // soon as the association takes data, before the peer's DCEP ACK: RFC 8832 allows it, and so does send_data()
            if !early {
                while !*open.borrow() {
                    if open.changed().await.is_err() {
                        break;
                    }
                }
            }
            let t0 = c.sh.lock().unwrap().t0;
            let mut first = early;
            for (at, idx, len) in list {
                tokio::time::sleep_until(t0 + Duration::from_millis(at)).await;
                let m = content(side, ch, sender, idx, len);
                let mut r = sctp.send_data(ch, &m).await;
                if first {
                    // the association may not be established yet: retry every millisecond for up to 60 s
                    let mut tries = 0;
                    while r.is_err() && tries < 60_000 {
                        tokio::time::sleep(Duration::from_millis(1)).await;
                        r = sctp.send_data(ch, &m).await;
                        tries += 1;
                    }
                    first = false;
                }
                match r {
                    Ok(()) => {
                        c.ev(&format!("api {who} send ch{ch} ok"), &format!("sender={sender} idx={idx} len={len}"));
                        *st2.lock().unwrap().sent_ok.entry((side, ch, sender)).or_insert(0) += 1;
                    }
                    Err(e) => {
                        c.ev(&format!("api {who} send ch{ch} err"), &format!("sender={sender} idx={idx} len={len} {e}"));
                        st2.lock().unwrap().send_err += 1;
                        break;
                    }
                }
            }
            st2.lock().unwrap().senders_running -= 1;
        })));
    }
    // channel close ops
    for (at, side, ch) in close_ops.iter().cloned() {
        let sctp = sides[side].sctp.clone();
        let c = CtxLite { sh: ctx.sh.clone() };
        aux_tasks.push(tokio::spawn(vh::wrap_task(async move {
            let t0 = c.sh.lock().unwrap().t0;
            tokio::time::sleep_until(t0 + Duration::from_millis(at)).await;
            let r = sctp.close_data_channel(ch).await;
            c.ev(&format!("api {} close_ch{ch} {}", if side == 0 { "A" } else { "B" }, if r.is_ok() { "ok" } else { "err" }), "");
        })));
    }

    // run until complete or deadline
    let last_op = plan.ops.iter().map(|o| o.at_ms).max().unwrap_or(0);
    let rto_max = plan.knob("rto_max_ms", 60000) as u64;
    let hb = plan.knob("hb_ms", 15000) as u64;
    let bound = (6 * rto_max + 2 * hb + 30_000).max(120_000);
    let deadline = plan.heal_at_ms.max(last_op) + bound;
    let has_close_ops = !close_ops.is_empty();
    let mut complete_at: Option<u64> = None;
    // Establishment is the first part of "the prefix grows ... within bounded time", and it has a bound of its own that
    // does not depend on the volume of data: once both DTLS transports are Connected and the network delivers reliably,
    // the pending T1 timer (INIT or COOKIE-ECHO; its RTO never exceeds rto_max) fires at most rto_max later and the
    // remaining exchange takes two round trips. Observed through the negotiated channels, which report Open at
    // establishment. Nothing is demanded once any side reported a close.
    // (pre-negotiated channels registered later never announce Open by themselves, so they say nothing here)
    let negotiated_ids: Vec<u16> = specs.iter().filter(|sp| !sp.inband && sp.late_ms == 0).map(|sp| sp.id).collect();
    let rtt_ms = (plan.latency_us[0] + plan.latency_us[1]) / 1000 + 2;
    let mut dtls_both_at: Option<u64> = None;
    let mut setup_judged = false;
    loop {
        let now = ctx.now_ms();
        if dtls_both_at.is_none() && dtls_state_name(&ea.dtls) == "Connected" && dtls_state_name(&eb.dtls) == "Connected" {
            dtls_both_at = Some(now);
        }
        if let (false, Some(t0)) = (setup_judged, dtls_both_at) {
            let rto_cap = rto_max.max(plan.knob("rto_initial_ms", 3000) as u64).max(plan.knob("rto_min_ms", 1000) as u64);
            let setup_deadline = t0.max(plan.heal_at_ms) + 2 * rto_cap + 4 * rtt_ms + 1500;
            if now >= setup_deadline {
                setup_judged = true;
                let s = st.lock().unwrap();
                let closed = s.any_close || sides.iter().any(|sd| sd.sctp.close_reason().is_some()) || dtls_state_name(&ea.dtls) != "Connected" || dtls_state_name(&eb.dtls) != "Connected";
                let unopened: Vec<String> = s.recv.iter().filter(|((_, ch), rs)| negotiated_ids.contains(ch) && rs.opens == 0).map(|((side, ch), _)| format!("{} ch{ch}", if *side == 0 { "A" } else { "B" })).collect();
                drop(s);
                if !closed && !unopened.is_empty() && !has_close_ops {
                    let mut u = unopened;
                    u.sort();
                    ctx.violate("C01.complete", format!("{} virtual ms after the network healed and both DTLS transports were Connected (heal_at={} ms, DTLS at {} ms; rto_max {} ms, RTT {} ms) the SCTP association is still not established for {} and no side reported a close: nothing can be delivered", now - t0.max(plan.heal_at_ms), plan.heal_at_ms, t0, rto_max, rtt_ms, u.join(", ")));
                } else {
                    ctx.stat("probe.setup_judged", 1);
                }
            }
        }
        let (running, all) = {
            let s = st.lock().unwrap();
            let mut all = true;
            for ((side, ch), rs) in s.recv.iter() {
                if rs.mode != Mode::ReliableOrdered && rs.mode != Mode::ReliableUnordered {
                    continue;
                }
                for (sd, list) in rs.planned.iter() {
                    let ok = s.sent_ok.get(&(1 - *side, *ch, *sd)).copied().unwrap_or(0) as usize;
                    let got = rs.used.get(sd).map(|u| u.iter().filter(|x| **x).count()).unwrap_or(0);
                    if got < ok.min(list.len()) {
                        all = false;
                    }
                }
            }
            // an in-band channel its creator has sent on must have been handed to the peer's application
            for sp in specs.iter().filter(|sp| sp.inband) {
                let sent_any = s.sent_ok.iter().any(|((sd, ch, _), n)| *sd == sp.creator && *ch == sp.id && *n > 0);
                if sent_any && !s.announced.contains(&(1 - sp.creator, sp.id)) {
                    all = false;
                }
            }
            (s.senders_running, all)
        };
        if running == 0 && all && now >= plan.heal_at_ms.min(last_op + 1000) {
            complete_at = Some(now);
            break;
        }
        if now >= deadline {
            break;
        }
        tokio::time::sleep(Duration::from_millis(250)).await;
    }
    let escape = {
        let s = st.lock().unwrap();
        let mut why = Vec::new();
        if s.any_close {
            why.push("a channel reported Close".to_string());
        }
        for (i, sd) in sides.iter().enumerate() {
            if let Some(r) = sd.sctp.close_reason() {
                why.push(format!("side {} close_reason={r}", i));
            }
        }
        if dtls_state_name(&ea.dtls) != "Connected" || dtls_state_name(&eb.dtls) != "Connected" {
            why.push(format!("dtls A={} B={}", dtls_state_name(&ea.dtls), dtls_state_name(&eb.dtls)));
        }
        why
    };
    if complete_at.is_none() {
        let s = st.lock().unwrap();
        let mut missing = Vec::new();
        for ((side, ch), rs) in s.recv.iter() {
            if rs.mode != Mode::ReliableOrdered {
                continue;
            }
            for (sd, list) in rs.planned.iter() {
                let ok = s.sent_ok.get(&(1 - *side, *ch, *sd)).copied().unwrap_or(0) as usize;
                let got = rs.cursor.get(sd).copied().unwrap_or(0);
                if got < ok.min(list.len()) {
                    missing.push(format!("to side {} ch {} sender {}: delivered {} of {} accepted", if *side == 0 { "A" } else { "B" }, ch, sd, got, ok));
                }
            }
        }
        missing.sort();
        let mut unannounced = Vec::new();
        for sp in specs.iter().filter(|sp| sp.inband) {
            let sent_any = s.sent_ok.iter().any(|((sd, ch, _), n)| *sd == sp.creator && *ch == sp.id && *n > 0);
            if sent_any && !s.announced.contains(&(1 - sp.creator, sp.id)) {
                unannounced.push(format!("ch {} (created by {}, ordered={}, max_retransmits={:?}, max_packet_life_time={:?})", sp.id, if sp.creator == 0 { "A" } else { "B" }, sp.ordered, sp.max_retransmits, sp.max_life));
            }
        }
        let running = s.senders_running;
        drop(s);
        for (i, sd) in sides.iter().enumerate() {
            ctx.ev(&format!("diag side{i}"), &sd.sctp.diagnostic_info());
        }
        if escape.is_empty() {
            if !missing.is_empty() {
                ctx.violate(
                    "C01.complete",
                    format!("{} virtual ms after the network healed (heal_at={} ms, bound {} ms) and with no close reported: {}", ctx.now_ms() - plan.heal_at_ms, plan.heal_at_ms, bound, missing.join("; ")),
                );
            } else if running > 0 {
                ctx.stat("probe.sender_blocked_at_deadline", 1);
            }
            if !unannounced.is_empty() {
                ctx.violate(
                    "C12.appear",
                    format!("{} virtual ms after the network healed (heal_at={} ms, bound {} ms) and with no close reported, the in-band channel(s) {} - on which the creator's send_data() succeeded - never appeared at the peer", ctx.now_ms() - plan.heal_at_ms, plan.heal_at_ms, bound, unannounced.join("; ")),
                );
            }
        } else {
            ctx.stat("escape.closed", 1);
            ctx.ev("escape", &escape.join(", "));
        }
    }
    // quiet observation (C13.quiet) — only when everything was delivered and nothing was closed
    let quiet_s = plan.knob("quiet_s", 0) as u64;
    if quiet_s > 0 && complete_at.is_some() && escape.is_empty() && !has_close_ops {
        // wait until both senders have had their last TSN cumulatively acknowledged
        let mut waited = 0;
        loop {
            let all_acked = {
                let ws = wire.lock().unwrap();
                ["A", "B"].iter().all(|h| match ws.hosts.get(*h) {
                    Some(hw) => match (hw.hi, hw.cum_acked) {
                        (Some(hi), Some((ca, _))) => sge(ca, hi),
                        (None, _) => true,
                        _ => false,
                    },
                    None => true,
                })
            };
            if all_acked || waited > 60_000 {
                if all_acked {
                    // a heartbeat-free grace of one RTT for in-flight SACK answers
                    tokio::time::sleep(Duration::from_millis(2 * (plan.latency_us[0] + plan.latency_us[1]) / 1000 + 50)).await;
                    // replies to late duplicates that the fault plan still has in flight are not "injected" traffic
                    let settle = plan.heal_at_ms + 2 * (plan.latency_us[0] + plan.latency_us[1]) / 1000 + 100;
                    if ctx.now_ms() < settle {
                        ctx.sleep_until_ms(settle).await;
                    }
                    let now = ctx.sh.lock().unwrap().now_ms();
                    wire.lock().unwrap().quiet_from = Some(now);
                    ctx.ev("quiet-from", "");
                }
                break;
            }
            tokio::time::sleep(Duration::from_millis(100)).await;
            waited += 100;
        }
        tokio::time::sleep(Duration::from_secs(quiet_s)).await;
        ctx.stat("probe.quiet_observed", 1);
    }
    // stats
    {
        let s = st.lock().unwrap();
        let delivered: u32 = s.recv.values().map(|r| r.msgs).sum();
        let submitted: u32 = s.sent_ok.values().sum();
        let mut sh = ctx.sh.lock().unwrap();
        sh.stat("msgs.delivered", delivered as u64);
        sh.stat("msgs.accepted", submitted as u64);
        sh.stat("send.err", s.send_err as u64);
        let fired = sh.fired.len() as u64;
        if fired > 0 && submitted > 0 {
            sh.stat("nontrivial", 1);
        }
        let now = sh.now_ms() as u64;
        sh.stat("virt_ms", now);
        let ws = wire.lock().unwrap();
        for (_h, hw) in ws.hosts.iter() {
            sh.stat("wire.data_chunks", hw.data_pkts);
            sh.stat("wire.retransmissions", hw.rtx);
            if hw.zero_window_seen {
                sh.stat("probe.new_data_at_zero_window", 1);
            }
        }
    }
    wire.lock().unwrap().enabled = false;
    for h in sender_handles {
        h.abort();
    }
    for t in aux_tasks {
        t.abort();
    }
    for sd in sides.iter() {
        sd.sctp.close();
    }
    drop(sides);
    ea.abort_all();
    eb.abort_all();
    tokio::time::sleep(Duration::from_millis(10)).await;
}

/// Clonable subset of Ctx for spawned tasks.
pub struct CtxLite {
    pub sh: crate::net::SharedRef,
}
impl CtxLite {
    pub fn ev(&self, sem: &str, detail: &str) {
        self.sh.lock().unwrap().event(sem, detail);
    }
    pub fn violate(&self, o: &str, d: String) {
        self.sh.lock().unwrap().violate(o, d);
    }
}
fn on_event_lite(c: &CtxLite, st: &Arc<Mutex<State>>, side: usize, ch: u16, ev: Option<DataChannelEvent>) {
    on_event(c, st, side, ch, ev)
}
