//! Scenario `srtp_gate` (C14): SRTP-mandatory RtpTransports never emit or accept cleartext.
//!
//! Rig (no DTLS; keys are installed with `RtpTransport::start_srtp`, the method both
//! `PeerConnection::setup_srtp` and `setup_sdes` use):
//!   A 10.0.0.1:5000  RtpTransport(srtp_required = true), transport under test, peer = B
//!   B 10.0.0.2:5000  RtpTransport(srtp_required = true), the genuine key holder, peer = A
//!   C 10.0.0.3:5000  RtpTransport(srtp_required = true), bridge target (keys only by op)
//!   P 10.0.0.3:5002  RtpTransport(srtp_required = false), plain-RTP bridge target
//!   M 10.0.0.66      attacker: `ctx.net.inject` of cleartext / wrongly keyed / corrupted packets
//! Mode 0 = WebRTC-like (rtcp-mux, `RtpTransport::new`), mode 1 = SDES-like
//! (`new_with_ssrc_change(.., true, true)`, optionally a separate RTCP port 5001).
//!
//! Oracles (reference SRTP = the independent `webrtc-srtp` crate, fresh context per datagram):
//!   C14.tx  every datagram leaving A, B or C authenticates and decrypts under the reference
//!           context for a key set installed on that transport and equals a packet the
//!           application asked to send (or, for C, a bridged packet); nothing leaves before
//!           keys exist.
//!   C14.rx  listener channels, the RTCP listener, RtpObserver callbacks and the wire of the
//!           bridge targets only ever carry packets that arrived authenticated under a key set
//!           installed on the receiving transport.
use super::Tier;
use crate::monitor::{StdMonitor, WireOracle};
use crate::net::{addr, host_name, Shared, SharedRef, SimNet};
use crate::plan::*;
use crate::rig::bare_conn;
use crate::sim::Ctx;
use bytes::Bytes;
use rustrtc::peer_connection::RtpObserver;
use rustrtc::rtp::{marshal_rtcp_packets, Goodbye, PictureLossIndication, ReceiverReport, RtcpPacket, RtpHeader, RtpPacket};
use rustrtc::srtp::{SrtpKeyingMaterial, SrtpProfile, SrtpSession};
use rustrtc::transports::ice::conn::IceConn;
use rustrtc::transports::rtp::{RtpRewriteBridgeOptions, RtpRewriteBridgeParams, RtpRewriteRule, RtpTransport};
use rustrtc::transports::PacketReceiver;
use rustrtc::verif_hooks::{self as vh, UdpSocket};
use std::collections::{BTreeMap, HashSet};
use std::net::SocketAddr;
use std::sync::{Arc, Mutex};
use std::time::Duration;
use tokio::sync::mpsc;
use tokio::task::JoinHandle;
use webrtc_srtp::context::Context as RefCtx;
use webrtc_srtp::protection_profile::ProtectionProfile as RefProfile;

const HOSTS: [&str; 4] = ["A", "B", "C", "P"];
const BRIDGE_OUT_SSRC: u32 = 0xC0C0_0001;

fn peer_of(h: usize) -> usize {
    1 - (h & 1)
}
fn local_ssrc(h: usize) -> u32 {
    if h == 0 { 0xA000_0001 } else { 0xB000_0001 }
}
/// (payload type, ssrc) of media stream `v` sent by host `h`; v=1 is the RTX-like stream
/// (the NACK/RTX responder in peer_connection.rs calls the same `send_rtp`).
fn stream(h: usize, v: i64) -> (u8, u32) {
    let base = if h == 0 { 0xA000_0010u32 } else { 0xB000_0010u32 };
    match v.rem_euclid(3) {
        0 => (96, base),
        1 => (97, base + 1),
        _ => (111, base + 2),
    }
}
fn rtcp_id(id: u32) -> u32 {
    0xC140_0000 | (id & 0xffff)
}

// ---------------------------------------------------------------------------
// keys and the reference SRTP implementation
// ---------------------------------------------------------------------------
#[derive(Clone)]
struct Key(Vec<u8>, Vec<u8>);

/// dir: 0 = A->B, 1 = B->A, 2 = C tx, 3 = C rx, 4 = attacker's own key
fn key(seed: u64, dir: u64, keyset: u64, prof: i64) -> Key {
    let mut r = Rng::new(mix(mix(seed, 0x6b65_7973), dir * 16 + keyset));
    let mut k = vec![0u8; 16];
    let mut s = vec![0u8; if prof == 2 { 12 } else { 14 }];
    r.fill(&mut k);
    r.fill(&mut s);
    Key(k, s)
}
fn tx_dir(h: usize) -> u64 {
    [0, 1, 2, 2][h]
}
fn rx_dir(h: usize) -> u64 {
    [1, 0, 3, 3][h]
}
fn rtc_profile(p: i64) -> SrtpProfile {
    match p {
        1 => SrtpProfile::Aes128Sha1_32,
        2 => SrtpProfile::AeadAes128Gcm,
        _ => SrtpProfile::Aes128Sha1_80,
    }
}
fn ref_profile(p: i64) -> RefProfile {
    match p {
        1 => RefProfile::Aes128CmHmacSha1_32,
        2 => RefProfile::AeadAes128Gcm,
        _ => RefProfile::Aes128CmHmacSha1_80,
    }
}
fn ref_ctx(k: &Key, prof: i64) -> Option<RefCtx> {
    RefCtx::new(&k.0, &k.1, ref_profile(prof), None, None).ok()
}
fn rtp_tag_len(prof: i64) -> usize {
    [10, 4, 16][prof.clamp(0, 2) as usize]
}
fn ref_seal_rtp(k: &Key, prof: i64, plain: &[u8]) -> Option<Vec<u8>> {
    ref_ctx(k, prof)?.encrypt_rtp(plain).ok().map(|b| b.to_vec())
}
fn ref_open_rtp(k: &Key, prof: i64, d: &[u8]) -> Option<Vec<u8>> {
    if d.len() < 12 + rtp_tag_len(prof) || d[0] >> 6 != 2 {
        return None;
    }
    ref_ctx(k, prof)?.decrypt_rtp(d).ok().map(|b| b.to_vec())
}
/// Reference SRTCP encryption of `plain` with SRTCP index `index` (>= 1). The reference keeps the
/// index per SSRC and starts at 1, so it is advanced by encrypting the same packet index-1 times.
fn ref_seal_rtcp_rfc(k: &Key, prof: i64, plain: &[u8], index: u32) -> Option<Vec<u8>> {
    if plain.len() < 8 || index == 0 || index > 64 {
        return None;
    }
    let mut c = ref_ctx(k, prof)?;
    for _ in 1..index {
        c.encrypt_rtcp(plain).ok()?;
    }
    c.encrypt_rtcp(plain).ok().map(|b| b.to_vec())
}
/// SRTCP as rustrtc's peer would send it: RFC form, except that rustrtc uses a 32-bit SRTCP tag with
/// the AES128_CM_HMAC_SHA1_32 profile (RFC 5764 4.1.2 says 80 bits for SRTCP) -- see the report.
fn ref_seal_rtcp_dialect(k: &Key, prof: i64, plain: &[u8], index: u32) -> Option<Vec<u8>> {
    let mut v = ref_seal_rtcp_rfc(k, prof, plain, index)?;
    if prof == 1 {
        v.truncate(v.len() - 6);
    }
    Some(v)
}
fn ref_open_rtcp(k: &Key, prof: i64, d: &[u8]) -> Option<Vec<u8>> {
    if d[0] >> 6 != 2 {
        return None;
    }
    if prof == 2 {
        if d.len() < 8 + 16 + 4 {
            return None;
        }
    } else {
        if d.len() < 8 + 4 + 10 {
            return None;
        }
        // the reference returns E=0 packets without checking the tag: never count those as authenticated
        if d[d.len() - 14] & 0x80 == 0 {
            return None;
        }
    }
    ref_ctx(k, prof)?.decrypt_rtcp(d).ok().map(|b| b.to_vec())
}
/// AES128_CM_HMAC_SHA1_32 with rustrtc's 4-byte SRTCP tag cannot be opened by the reference; instead
/// the reference encrypts each candidate plaintext at the index found on the wire and the result
/// (tag truncated to 4 bytes) must equal the datagram.
fn ref_match_rtcp_tag32(k: &Key, d: &[u8], candidates: &[(usize, Vec<u8>)]) -> Option<usize> {
    if d.len() < 8 + 4 + 4 {
        return None;
    }
    let ix = u32::from_be_bytes([d[d.len() - 8], d[d.len() - 7], d[d.len() - 6], d[d.len() - 5]]);
    if ix & 0x8000_0000 == 0 {
        return None;
    }
    let ix = ix & 0x7fff_ffff;
    for (oi, plain) in candidates {
        if plain.len() + 8 != d.len() || plain[..8] != d[..8] {
            continue;
        }
        if let Some(v) = ref_seal_rtcp_dialect(k, 1, plain, ix) {
            if v == d {
                return Some(*oi);
            }
        }
    }
    None
}

fn looks_rtcp(d: &[u8]) -> bool {
    d.len() >= 2 && (192..=223).contains(&d[1])
}
/// The harness' own RTP framing: payload of a (plaintext) RTP packet.
fn rtp_payload(d: &[u8]) -> Option<&[u8]> {
    if d.len() < 12 || d[0] >> 6 != 2 {
        return None;
    }
    let mut off = 12 + 4 * (d[0] & 0x0f) as usize;
    if d[0] & 0x10 != 0 {
        if d.len() < off + 4 {
            return None;
        }
        off += 4 + 4 * u16::from_be_bytes([d[off + 2], d[off + 3]]) as usize;
    }
    let mut end = d.len();
    if d[0] & 0x20 != 0 {
        let p = *d.last()? as usize;
        if p == 0 || p > end.saturating_sub(off) {
            return None;
        }
        end -= p;
    }
    if off > end {
        return None;
    }
    Some(&d[off..end])
}
fn rtp_bytes(pt: u8, marker: bool, seq: u16, ts: u32, ssrc: u32, payload: &[u8]) -> Vec<u8> {
    let mut v = vec![0x80, pt | if marker { 0x80 } else { 0 }];
    v.extend_from_slice(&seq.to_be_bytes());
    v.extend_from_slice(&ts.to_be_bytes());
    v.extend_from_slice(&ssrc.to_be_bytes());
    v.extend_from_slice(payload);
    v
}
fn eq_mod_marker(a: &[u8], b: &[u8]) -> bool {
    a.len() == b.len() && a.len() >= 2 && a[0] == b[0] && (a[1] & 0x7f) == (b[1] & 0x7f) && a[2..] == b[2..]
}
fn payload_of(seed: u64, id: u32, kind: u8) -> Vec<u8> {
    let mut v = vec![b'C', b'1', b'4', kind, (id >> 8) as u8, id as u8];
    let mut tail = [0u8; 10];
    Rng::new(mix(mix(seed, 0x7061_796c), id as u64)).fill(&mut tail);
    v.extend_from_slice(&tail);
    v
}
fn hex(b: &[u8]) -> String {
    b.iter().take(24).map(|x| format!("{x:02x}")).collect::<String>()
}

// ---------------------------------------------------------------------------
// oracle state
// ---------------------------------------------------------------------------
#[derive(Clone, Debug, PartialEq)]
enum OKind {
    /// the application on `host` asked its transport to send this packet
    App { host: usize },
    /// protected by the harness with the reference under key set `keyset` of the direction towards `dest`
    Prot { dest: usize, keyset: u64 },
    Clear { dest: usize },
    /// protected under a key nobody installed, or under the right key and then corrupted
    Bad { dest: usize },
}
struct Origin {
    id: u32,
    kind: OKind,
    rtcp: bool,
    plain: Vec<u8>,
    /// key sets under which a real emission of this application packet was validated on the wire
    wire_keys: Vec<u64>,
}
#[derive(Default)]
struct HostSt {
    installed: Vec<u64>,
    listeners_on: bool,
    bridged: bool,
}
struct St {
    seed: u64,
    prof: i64,
    hosts: [HostSt; 4],
    origins: Vec<Origin>,
    by_payload: BTreeMap<Vec<u8>, usize>,
    by_rtcp_id: BTreeMap<u32, usize>,
    injecting: bool,
    enabled: bool,
    pre_key_sends: u64,
    attacks_exposed: u64,
}
impl St {
    fn add(&mut self, id: u32, kind: OKind, rtcp: bool, plain: Vec<u8>) -> usize {
        let oi = self.origins.len();
        if rtcp {
            self.by_rtcp_id.insert(rtcp_id(id), oi);
        } else if let Some(p) = rtp_payload(&plain) {
            self.by_payload.insert(p.to_vec(), oi);
        }
        self.origins.push(Origin { id, kind, rtcp, plain, wire_keys: Vec::new() });
        oi
    }
    /// Ok iff origin `oi` reached host `x` authenticated under a key set `x` has installed.
    fn genuine_for(&self, oi: usize, x: usize) -> Result<(), String> {
        let o = &self.origins[oi];
        let inst = &self.hosts[x].installed;
        match &o.kind {
            OKind::Prot { dest, keyset } if *dest == x && inst.contains(keyset) => Ok(()),
            OKind::Prot { dest, keyset } => Err(format!("packet #{} was protected for {} under key set {keyset}, but {} has only installed key sets {inst:?}", o.id, HOSTS[*dest], HOSTS[x])),
            OKind::App { host } if *host == peer_of(x) && x < 2 && o.wire_keys.iter().any(|k| inst.contains(k)) => Ok(()),
            OKind::App { host } => Err(format!("packet #{} was sent by the application on {} (validated on the wire under key sets {:?}); {} has installed {inst:?}", o.id, HOSTS[*host], o.wire_keys, HOSTS[x])),
            OKind::Clear { dest } => Err(format!("packet #{} was injected towards {} in CLEARTEXT", o.id, HOSTS[*dest])),
            OKind::Bad { dest } => Err(format!("packet #{} was injected towards {} protected under a WRONG key or corrupted after protection", o.id, HOSTS[*dest])),
        }
    }
}
type StRef = Arc<Mutex<St>>;

/// A plaintext RTP packet surfaced at `x` (`via` = listener / observer / bridge wire). `src` is the
/// transport on which it must have arrived authenticated. `rewritten`: header was rewritten by the bridge.
fn judge_rtp(st: &StRef, sh: &SharedRef, x: usize, src: usize, via: &str, hdr: (u8, u16, u32), payload: &[u8], rewritten: bool) {
    let verdict: Result<u32, String> = {
        let g = st.lock().unwrap();
        if !g.enabled {
            return;
        }
        match g.by_payload.get(payload) {
            None => {
                // the clear header may still tell which injected packet this was
                let hint = g.origins.iter().find(|o| !o.rtcp && !rewritten && 1000 + o.id as u16 == hdr.1).map(|o| format!("; the sequence number is that of packet #{} ({:?})", o.id, o.kind)).unwrap_or_default();
                Err(format!("payload {} ({} B, pt={} seq={} ssrc={:08x}) equals no packet originated in this run{hint}", hex(payload), payload.len(), hdr.0, hdr.1, hdr.2))
            }
            Some(&oi) => g.genuine_for(oi, src).and_then(|_| {
                let o = &g.origins[oi];
                let p = &o.plain;
                let (opt, oseq, ossrc) = (p[1] & 0x7f, u16::from_be_bytes([p[2], p[3]]), u32::from_be_bytes([p[8], p[9], p[10], p[11]]));
                if !rewritten && (opt, oseq, ossrc) != hdr {
                    Err(format!("packet #{} surfaced with header (pt,seq,ssrc)={hdr:?} but was sent with {:?}", o.id, (opt, oseq, ossrc)))
                } else {
                    Ok(o.id)
                }
            }),
        }
    };
    let mut s = sh.lock().unwrap();
    match verdict {
        Ok(id) => {
            s.stat(&format!("surfaced.{via}"), 1);
            s.event(&format!("rx {} {via} genuine", HOSTS[x]), &format!("#{id}"));
        }
        Err(why) => s.violate("C14.rx", format!("{} {via}: {why}", HOSTS[x])),
    }
}

fn rtcp_ssrcs(p: &RtcpPacket, out: &mut Vec<u32>) {
    match p {
        RtcpPacket::SenderReport(x) => out.push(x.sender_ssrc),
        RtcpPacket::ReceiverReport(x) => out.push(x.sender_ssrc),
        RtcpPacket::SourceDescription(x) => out.extend(x.chunks.iter().map(|c| c.ssrc)),
        RtcpPacket::Goodbye(x) => out.extend(x.sources.iter().copied()),
        RtcpPacket::PictureLossIndication(x) => out.extend([x.sender_ssrc, x.media_ssrc]),
        RtcpPacket::FullIntraRequest(x) => out.push(x.sender_ssrc),
        RtcpPacket::GenericNack(x) => out.extend([x.sender_ssrc, x.media_ssrc]),
        RtcpPacket::RemoteBitrateEstimate(x) => out.push(x.sender_ssrc),
        RtcpPacket::TransportWideCc(x) => out.extend([x.sender_ssrc, x.media_ssrc]),
    }
}

fn judge_rtcp(st: &StRef, sh: &SharedRef, x: usize, pkts: &[RtcpPacket]) {
    let mut ids = Vec::new();
    for p in pkts {
        rtcp_ssrcs(p, &mut ids);
    }
    let verdict: Result<Vec<u32>, String> = {
        let g = st.lock().unwrap();
        if !g.enabled {
            return;
        }
        let known: Vec<usize> = ids.iter().filter_map(|i| g.by_rtcp_id.get(i).copied()).collect();
        if pkts.is_empty() {
            Ok(Vec::new())
        } else if known.is_empty() {
            Err(format!("compound of {} RTCP packet(s) with ssrc fields {:08x?} equals no packet originated in this run", pkts.len(), ids))
        } else {
            known.iter().try_fold(Vec::new(), |mut acc, oi| {
                g.genuine_for(*oi, x)?;
                acc.push(g.origins[*oi].id);
                Ok(acc)
            })
        }
    };
    let mut s = sh.lock().unwrap();
    match verdict {
        Ok(v) if v.is_empty() => s.stat("probe.rtcp_listener_empty_compound", 1),
        Ok(v) => {
            s.stat("surfaced.rtcp_listener", 1);
            s.event(&format!("rx {} rtcp_listener genuine", HOSTS[x]), &format!("{v:?}"));
        }
        Err(why) => s.violate("C14.rx", format!("{} rtcp_listener: {why}", HOSTS[x])),
    }
}

struct Obs {
    host: usize,
    st: StRef,
    sh: SharedRef,
}
impl RtpObserver for Obs {
    fn on_ingress(&self, p: &RtpPacket, _src: SocketAddr) {
        judge_rtp(&self.st, &self.sh, self.host, self.host, "observer.ingress", (p.header.payload_type, p.header.sequence_number, p.header.ssrc), &p.payload, false);
    }
    fn on_egress(&self, p: &RtpPacket, _dst: SocketAddr) {
        if self.host >= 2 {
            // egress on a bridge target = a packet the bridge on A is forwarding
            judge_rtp(&self.st, &self.sh, self.host, 0, "observer.bridge_egress", (p.header.payload_type, p.header.sequence_number, p.header.ssrc), &p.payload, true);
        } else {
            // the application's own packet, shown to its own observer before the gate: not a wire matter
            self.sh.lock().unwrap().stat("probe.own_egress_observed", 1);
        }
    }
}

// ---------------------------------------------------------------------------
// wire oracle
// ---------------------------------------------------------------------------
struct GateWire(StRef);

impl WireOracle for GateWire {
    fn on_other(&mut self, from: SocketAddr, _to: SocketAddr, d: &[u8], class: &str, sh: &mut Shared) {
        let mut g = self.0.lock().unwrap();
        if !g.enabled || g.injecting {
            return;
        }
        let h = match (host_name(from.ip()).as_str(), from.port()) {
            ("A", _) => 0,
            ("B", _) => 1,
            ("C", 5000) => 2,
            ("C", 5002) => 3,
            _ => return,
        };
        let who = HOSTS[h];
        sh.stat("wire.datagrams", 1);
        if h == 3 {
            // plain-RTP bridge target: its wire is plaintext by configuration; what it carries must have
            // arrived authenticated on A
            let verdict = match rtp_payload(d).and_then(|p| g.by_payload.get(p).copied()) {
                None => Err(format!("{} B datagram {} equals no packet originated in this run", d.len(), hex(d))),
                Some(oi) => g.genuine_for(oi, 0),
            };
            match verdict {
                Ok(()) => sh.stat("wire.bridged_plain_ok", 1),
                Err(why) => sh.violate("C14.rx", format!("P bridge_wire: {why}")),
            }
            return;
        }
        if g.hosts[h].installed.is_empty() {
            sh.violate("C14.tx", format!("{who} emitted a {} B {class} datagram ({}) before any SRTP keys were installed on it", d.len(), hex(d)));
            return;
        }
        let prof = g.prof;
        let seed = g.seed;
        let mut opened: Option<(u64, Vec<u8>, bool)> = None;
        let mut tag32: Option<(u64, usize)> = None;
        let order = if looks_rtcp(d) { [true, false] } else { [false, true] };
        'k: for ks in g.hosts[h].installed.iter().rev() {
            let k = key(seed, tx_dir(h), *ks, prof);
            for as_rtcp in order {
                let r = if as_rtcp { ref_open_rtcp(&k, prof, d) } else { ref_open_rtp(&k, prof, d) };
                if let Some(p) = r {
                    opened = Some((*ks, p, as_rtcp));
                    break 'k;
                }
            }
            if prof == 1 && looks_rtcp(d) {
                let cands: Vec<(usize, Vec<u8>)> = g.origins.iter().enumerate().filter(|(_, o)| o.kind == OKind::App { host: h } && o.rtcp).map(|(i, o)| (i, o.plain.clone())).collect();
                if let Some(oi) = ref_match_rtcp_tag32(&k, d, &cands) {
                    tag32 = Some((*ks, oi));
                    break 'k;
                }
            }
        }
        if let Some((ks, oi)) = tag32 {
            sh.stat("wire.validated", 1);
            sh.stat("probe.srtcp_tag32_dialect", 1);
            if !g.origins[oi].wire_keys.contains(&ks) {
                g.origins[oi].wire_keys.push(ks);
            }
            return;
        }
        let Some((ks, plain, as_rtcp)) = opened else {
            sh.violate(
                "C14.tx",
                format!("{who} emitted a {} B {class} datagram ({}) that does not authenticate as SRTP or SRTCP under the reference context for any key set installed on {who} ({:?})", d.len(), hex(d), g.hosts[h].installed),
            );
            return;
        };
        // equals a packet the application asked this transport to send?
        let hit = g.origins.iter().position(|o| o.kind == OKind::App { host: h } && if as_rtcp { o.plain == plain } else { eq_mod_marker(&o.plain, &plain) });
        if let Some(oi) = hit {
            sh.stat("wire.validated", 1);
            if !g.origins[oi].wire_keys.contains(&ks) {
                g.origins[oi].wire_keys.push(ks);
            }
            return;
        }
        if h == 2 && !as_rtcp {
            // a bridged packet: payload must have arrived authenticated on A
            let verdict = match rtp_payload(&plain).and_then(|p| g.by_payload.get(p).copied()) {
                None => Err(format!("decrypted {} B packet {} equals no packet originated in this run", plain.len(), hex(&plain))),
                Some(oi) => g.genuine_for(oi, 0),
            };
            match verdict {
                Ok(()) => sh.stat("wire.bridged_protected_ok", 1),
                Err(why) => sh.violate("C14.rx", format!("C bridge_wire: {why}")),
            }
            return;
        }
        sh.violate("C14.tx", format!("{who} emitted a datagram that authenticates under key set {ks} but its plaintext ({} B, {}) equals no packet the application asked {who} to send", plain.len(), hex(&plain)));
    }
}

// ---------------------------------------------------------------------------
// rig
// ---------------------------------------------------------------------------
struct Rig {
    t: [Arc<RtpTransport>; 4],
    st: StRef,
    sh: SharedRef,
    net: Arc<SimNet>,
    mux: bool,
    prof: i64,
    seed: u64,
    rtcp_cap: usize,
    tasks: Mutex<Vec<JoinHandle<()>>>,
}

impl Rig {
    fn ev(&self, sem: &str, detail: &str) {
        self.sh.lock().unwrap().event(sem, detail);
    }
    fn rtp_addr(&self, h: usize) -> SocketAddr {
        addr(HOSTS[h & 1], 5000)
    }
    fn rtcp_addr(&self, h: usize) -> SocketAddr {
        addr(HOSTS[h & 1], if self.mux { 5000 } else { 5001 })
    }
    fn inject(&self, spoof: bool, dest: usize, rtcp: bool, data: &[u8]) {
        let from = if spoof { self.rtp_addr(peer_of(dest)) } else { addr("M", 7000) };
        let to = if rtcp { self.rtcp_addr(dest) } else { self.rtp_addr(dest) };
        self.st.lock().unwrap().injecting = true;
        self.net.inject(from, to, data);
        self.st.lock().unwrap().injecting = false;
    }
    fn register_listeners(&self, h: usize) {
        let t = &self.t[h];
        let p = peer_of(h);
        let mut handles = Vec::new();
        let mut mk = |via: &'static str| {
            let (tx, mut rx) = mpsc::channel::<(RtpPacket, SocketAddr)>(64);
            let (st, sh) = (self.st.clone(), self.sh.clone());
            handles.push(tokio::spawn(vh::wrap_task(async move {
                while let Some((pk, _)) = rx.recv().await {
                    judge_rtp(&st, &sh, h, h, via, (pk.header.payload_type, pk.header.sequence_number, pk.header.ssrc), &pk.payload, false);
                }
            })));
            tx
        };
        t.register_listener_sync(stream(p, 0).1, mk("listener.ssrc"));
        t.register_pt_listener(stream(p, 1).0, mk("listener.pt"));
        t.register_provisional_listener(mk("listener.provisional"));
        let (rtx, mut rrx) = mpsc::channel::<Vec<RtcpPacket>>(self.rtcp_cap.max(1));
        let (st, sh) = (self.st.clone(), self.sh.clone());
        handles.push(tokio::spawn(vh::wrap_task(async move {
            while let Some(pkts) = rrx.recv().await {
                judge_rtcp(&st, &sh, h, &pkts);
            }
        })));
        t.register_rtcp_listener(rtx);
        self.st.lock().unwrap().hosts[h].listeners_on = true;
        self.tasks.lock().unwrap().extend(handles);
    }
}

fn rtcp_socket(ctx: &Ctx, host: &str, conn: Arc<IceConn>) -> JoinHandle<()> {
    let sock = Arc::new(UdpSocket::from_sim(ctx.net.bind(addr(host, 5001)).expect("bind rtcp")));
    tokio::spawn(vh::wrap_task(async move {
        let mut buf = vec![0u8; 2048];
        let mut mb = Vec::new();
        while let Ok((n, from)) = sock.recv_from(&mut buf).await {
            conn.receive(Bytes::copy_from_slice(&buf[..n]), from, &mut mb).await;
        }
    }))
}

fn app_rtcp(h: usize, v: i64, id: u32) -> Vec<RtcpPacket> {
    let pli = RtcpPacket::PictureLossIndication(PictureLossIndication { sender_ssrc: local_ssrc(h), media_ssrc: rtcp_id(id) });
    match v.rem_euclid(4) {
        0 => vec![pli],
        1 => vec![RtcpPacket::Goodbye(Goodbye { sources: vec![rtcp_id(id)], reason: None })],
        2 => vec![RtcpPacket::ReceiverReport(ReceiverReport { sender_ssrc: rtcp_id(id), report_blocks: vec![] })],
        _ => vec![RtcpPacket::ReceiverReport(ReceiverReport { sender_ssrc: local_ssrc(h), report_blocks: vec![] }), pli],
    }
}

async fn exec(r: &Rig, i: usize, op: &Op) {
    let id = i as u32;
    let (a0, a1, a2) = (op.arg(0), op.arg(1), op.arg(2));
    match op.kind.as_str() {
        "keys" => {
            let h = a0.rem_euclid(3) as usize;
            let ks = a1.rem_euclid(2) as u64;
            let txk = key(r.seed, tx_dir(h), ks, r.prof);
            let rxk = key(r.seed, rx_dir(h), ks, r.prof);
            match SrtpSession::new(rtc_profile(r.prof), SrtpKeyingMaterial::new(txk.0, txk.1), SrtpKeyingMaterial::new(rxk.0, rxk.1)) {
                Ok(s) => {
                    {
                        let mut g = r.st.lock().unwrap();
                        if !g.hosts[h].installed.contains(&ks) {
                            g.hosts[h].installed.push(ks);
                        }
                    }
                    r.t[h].start_srtp(s);
                    r.ev(&format!("op keys {} ks{ks}", HOSTS[h]), "");
                }
                Err(e) => r.sh.lock().unwrap().violate("HARNESS.srtp_session", format!("{e}")),
            }
        }
        "send_rtp" | "send_raw" => {
            let h = a0.rem_euclid(2) as usize;
            let raw = op.kind == "send_raw";
            let (pt, ssrc) = stream(h, a1);
            let as_rtcp_bytes = raw && a2 & 1 == 1;
            let plain = if as_rtcp_bytes {
                // RTCP bytes handed to the raw path (which treats everything as RTP)
                marshal_rtcp_packets(&app_rtcp(h, 3, id)).unwrap_or_default()
            } else {
                rtp_bytes(pt, false, 1000 + id as u16, 160 * id, ssrc, &payload_of(r.seed, id, if raw { b'w' } else { b'a' }))
            };
            {
                let mut g = r.st.lock().unwrap();
                if g.hosts[h].installed.is_empty() {
                    g.pre_key_sends += 1;
                }
                let oi = g.add(id, OKind::App { host: h }, false, plain.clone());
                if as_rtcp_bytes {
                    g.by_rtcp_id.insert(rtcp_id(id), oi);
                }
            }
            let res = if raw {
                r.t[h].send(&plain).await.map(|_| ())
            } else {
                let pk = RtpPacket::new(RtpHeader::new(pt, 1000 + id as u16, 160 * id, ssrc), payload_of(r.seed, id, b'a'));
                r.t[h].send_rtp(pk).await.map(|_| ())
            };
            r.ev(&format!("op {} {} v{}{} {}", op.kind, HOSTS[h], a1.rem_euclid(3), if as_rtcp_bytes { " rtcp-bytes" } else { "" }, if res.is_ok() { "ok" } else { "err" }), &format!("#{id} {:?}", res.err().map(|e| e.to_string())));
        }
        "send_rtcp" | "bye_sync" | "close" => {
            let h = a0.rem_euclid(2) as usize;
            let pkts = match op.kind.as_str() {
                "send_rtcp" => app_rtcp(h, a1, id),
                "bye_sync" => vec![RtcpPacket::Goodbye(Goodbye { sources: vec![rtcp_id(id)], reason: Some("bye".into()) })],
                _ => vec![RtcpPacket::Goodbye(Goodbye { sources: vec![rtcp_id(id)], reason: Some("PeerConnection closed".into()) })],
            };
            let plain = marshal_rtcp_packets(&pkts).unwrap_or_default();
            {
                let mut g = r.st.lock().unwrap();
                if g.hosts[h].installed.is_empty() {
                    g.pre_key_sends += 1;
                }
                g.add(id, OKind::App { host: h }, true, plain);
                if op.kind == "close" {
                    g.hosts[h].listeners_on = false;
                }
            }
            let res = match op.kind.as_str() {
                "send_rtcp" => if r.t[h].send_rtcp(&pkts).await.is_ok() { "ok" } else { "err" },
                "bye_sync" => {
                    r.t[h].send_rtcp_sync(&pkts);
                    "done"
                }
                _ => {
                    // PeerConnectionInner::close: clear_listeners, then the best-effort synchronous BYE
                    r.t[h].clear_listeners();
                    r.t[h].send_rtcp_sync(&pkts);
                    "done"
                }
            };
            r.ev(&format!("op {} {} v{} {res}", op.kind, HOSTS[h], a1.rem_euclid(4)), &format!("#{id}"));
        }
        "listen" => {
            let h = a0.rem_euclid(2) as usize;
            r.register_listeners(h);
            r.ev(&format!("op listen {}", HOSTS[h]), "");
        }
        "clr_rtp" | "prot_rtp" | "bad_rtp" | "clr_rtcp" | "prot_rtcp" | "bad_rtcp" => {
            let dest = a0.rem_euclid(2) as usize;
            let src = peer_of(dest);
            let rtcp = op.kind.ends_with("rtcp");
            let spoof = a2 & 1 == 1;
            let sub = (a2 >> 1) & 1;
            let flavour = &op.kind[..op.kind.find('_').unwrap_or(3)];
            let plain = if rtcp {
                marshal_rtcp_packets(&app_rtcp(src, a1, id)).unwrap_or_default()
            } else {
                let (pt, ssrc) = stream(src, a1);
                rtp_bytes(pt, a1 & 4 != 0, 1000 + id as u16, 160 * id, ssrc, &payload_of(r.seed, id, flavour.as_bytes()[0]))
            };
            let seal = |k: &Key| if rtcp { ref_seal_rtcp_dialect(k, r.prof, &plain, 1) } else { ref_seal_rtp(k, r.prof, &plain) };
            let (kind, wire) = match flavour {
                "clr" => (OKind::Clear { dest }, Some(plain.clone())),
                "prot" => (OKind::Prot { dest, keyset: sub as u64 }, seal(&key(r.seed, rx_dir(dest), sub as u64, r.prof))),
                _ if sub == 0 => (OKind::Bad { dest }, seal(&key(r.seed, 4, 0, r.prof))),
                _ => {
                    // right key (key set 0), one bit flipped after protection
                    let w = seal(&key(r.seed, rx_dir(dest), 0, r.prof)).map(|mut w| {
                        let bit = (a1 as usize / 8) % (w.len() * 8);
                        let pos = if a1 & 16 != 0 { w.len() * 8 - 1 - bit % 32 } else { 96 + bit % ((w.len() - 12) * 8) };
                        w[pos / 8] ^= 1 << (pos % 8);
                        w
                    });
                    (OKind::Bad { dest }, w)
                }
            };
            let Some(wire) = wire else {
                r.sh.lock().unwrap().violate("HARNESS.ref_seal", format!("reference could not protect op {i} {op:?}"));
                return;
            };
            {
                let mut g = r.st.lock().unwrap();
                if flavour != "prot" && (g.hosts[dest].listeners_on || g.hosts[dest].bridged || !rtcp) {
                    g.attacks_exposed += 1;
                }
                g.add(id, kind, rtcp, plain);
            }
            r.ev(&format!("op {} ->{} v{} sub{sub}{}", op.kind, HOSTS[dest], a1.rem_euclid(4), if spoof { " spoofed" } else { "" }), &format!("#{id}"));
            r.inject(spoof, dest, rtcp, &wire);
        }
        "bridge" => {
            let tgt = 2 + a0.rem_euclid(2) as usize;
            let params = RtpRewriteBridgeParams { fixed_out_ssrc: Some(BRIDGE_OUT_SSRC), initial_sequence_number: Some(5000), initial_timestamp_offset: Some(0), ..Default::default() };
            r.st.lock().unwrap().hosts[0].bridged = true;
            let split = a1 & 1 == 1;
            if split {
                // audio/video split: payload type 97 goes to the other target
                let options = RtpRewriteBridgeOptions { strip_extensions: false, initial_sequence_number: Some(5000), initial_timestamp_offset: Some(0), initial_output_timestamp: None };
                r.t[0].bridge_rewrite_rules_to_with_video(r.t[tgt].clone(), Some(r.t[5 - tgt].clone()), HashSet::from([97u8]), options, RtpRewriteRule::from_params(params));
            } else {
                r.t[0].bridge_rewrite_to(r.t[tgt].clone(), params);
            }
            r.ev(&format!("op bridge A->{}{}", HOSTS[tgt], if split { " +video" } else { "" }), "");
        }
        "unbridge" => {
            r.t[0].clear_bridge_rewrite();
            r.st.lock().unwrap().hosts[0].bridged = false;
            r.ev("op unbridge A", "");
        }
        other => r.sh.lock().unwrap().violate("HARNESS.op", format!("unknown op kind {other}")),
    }
}

pub async fn run(ctx: &Ctx) {
    let plan = &ctx.plan;
    let mode = plan.knob("mode", 0);
    let prof = plan.knob("prof", 0).clamp(0, 2);
    let mux = mode == 0 || plan.knob("mux", 1) != 0;
    let ntasks = plan.knob("tasks", 1).clamp(1, 4) as usize;
    let st: StRef = Arc::new(Mutex::new(St {
        seed: plan.seed,
        prof,
        hosts: Default::default(),
        origins: Vec::new(),
        by_payload: BTreeMap::new(),
        by_rtcp_id: BTreeMap::new(),
        injecting: false,
        enabled: true,
        pre_key_sends: 0,
        attacks_exposed: 0,
    }));
    {
        let mut m = StdMonitor::new(ctx.keys.clone());
        m.oracles.push(Box::new(GateWire(st.clone())));
        ctx.net.set_monitor(Box::new(m));
    }
    // legs
    let sink = |p: u16| -> SocketAddr { addr("10.0.0.4", p) };
    let legs = [("A", 5000u16, addr("B", 5000), true), ("B", 5000, addr("A", 5000), true), ("C", 5000, sink(6000), true), ("C", 5002, sink(6002), false)];
    let mut keep = Vec::new();
    let mut pumps: Vec<JoinHandle<()>> = Vec::new();
    let mut ts: Vec<Arc<RtpTransport>> = Vec::new();
    for (h, (host, port, peer, required)) in legs.iter().enumerate() {
        let (conn, tx, pump, _me) = bare_conn(ctx, host, *port, *peer);
        let t = Arc::new(if mode == 1 { RtpTransport::new_with_ssrc_change(conn.clone(), *required, true) } else { RtpTransport::new(conn.clone(), *required) });
        conn.set_rtp_receiver(t.clone() as Arc<dyn PacketReceiver>);
        if !mux && h < 2 {
            conn.set_remote_rtcp_addr(Some(addr(HOSTS[peer_of(h)], 5001)));
            pumps.push(rtcp_socket(ctx, host, conn.clone()));
        }
        t.add_observer(Arc::new(Obs { host: h, st: st.clone(), sh: ctx.sh.clone() }));
        keep.push((conn, tx));
        pumps.push(pump);
        ts.push(t);
    }
    let rig = Arc::new(Rig {
        t: [ts[0].clone(), ts[1].clone(), ts[2].clone(), ts[3].clone()],
        st: st.clone(),
        sh: ctx.sh.clone(),
        net: ctx.net.clone(),
        mux,
        prof,
        seed: plan.seed,
        rtcp_cap: plan.knob("rtcp_cap", 16).clamp(1, 256) as usize,
        tasks: Mutex::new(Vec::new()),
    });
    drop(ts);
    if plan.knob("listen0", 1) != 0 {
        rig.register_listeners(0);
        rig.register_listeners(1);
    }
    ctx.ev(&format!("rig mode{mode} prof{prof} mux{} tasks{ntasks}", mux as u8), "");

    // workload
    if ntasks <= 1 {
        for (i, op) in plan.ops.iter().enumerate() {
            ctx.sleep_until_ms(op.at_ms).await;
            exec(&rig, i, op).await;
        }
    } else {
        let mut hs = Vec::new();
        for tk in 0..ntasks {
            let mine: Vec<(usize, Op)> = plan.ops.iter().cloned().enumerate().filter(|(_, o)| o.arg(3).rem_euclid(ntasks as i64) as usize == tk).collect();
            if mine.is_empty() {
                continue;
            }
            let r = rig.clone();
            hs.push(tokio::spawn(vh::wrap_task(async move {
                let t0 = r.sh.lock().unwrap().t0;
                for (i, op) in mine {
                    tokio::time::sleep_until(t0 + Duration::from_millis(op.at_ms)).await;
                    exec(&r, i, &op).await;
                    tokio::task::yield_now().await;
                }
            })));
        }
        for h in hs {
            match tokio::time::timeout(Duration::from_secs(30), h).await {
                Ok(Ok(())) => {}
                Ok(Err(e)) if e.is_panic() => ctx.violate("HARNESS.task_panic", "an op task panicked".into()),
                Ok(Err(_)) => {}
                Err(_) => ctx.violate("HARNESS.stuck", "an op task did not finish within 30 virtual seconds".into()),
            }
        }
    }
    // let everything in flight land and be judged (faults never delay beyond heal_at + latency)
    let lat_ms = (plan.latency_us[0].max(plan.latency_us[1]) / 1000) + 1;
    let settle = ctx.now_ms().max(plan.heal_at_ms) + 2 * lat_ms + 100;
    ctx.sleep_until_ms(settle).await;

    {
        let g = st.lock().unwrap();
        let mut sh = ctx.sh.lock().unwrap();
        sh.stat("ops.executed", plan.ops.len() as u64);
        sh.stat("probe.send_before_keys", g.pre_key_sends);
        sh.stat("probe.attack_packet_while_exposed", g.attacks_exposed);
        if g.pre_key_sends > 0 || g.attacks_exposed > 0 {
            sh.stat("nontrivial", 1);
        }
        for (h, t) in rig.t.iter().enumerate() {
            sh.stat(&format!("accepted_rtp.{}", HOSTS[h]), t.received_rtp_packets());
        }
        let now = sh.now_ms() as u64;
        sh.stat("virt_ms", now);
    }
    st.lock().unwrap().enabled = false;
    for t in rig.tasks.lock().unwrap().drain(..) {
        t.abort();
    }
    for p in pumps {
        p.abort();
    }
    rig.t[0].clear_bridge_rewrite();
    for t in rig.t.iter() {
        t.clear_listeners();
        t.clear_observers();
    }
    drop(rig);
    drop(keep);
    tokio::time::sleep(Duration::from_millis(5)).await;
}

// ---------------------------------------------------------------------------
// plans
// ---------------------------------------------------------------------------
/// The op alphabet of the exhaustive part (one symbol may expand to two ops).
const SYMS: usize = 16;
fn symbol(sym: usize, at: u64, out: &mut Vec<Op>) {
    let mut op = |k: &str, a: &[i64]| out.push(Op::new(at, k, a));
    match sym {
        0 => op("keys", &[0, 0]),
        1 => op("send_rtp", &[0, 0]),
        2 => op("send_raw", &[0, 0]),
        3 => op("send_rtcp", &[0, 0]),
        4 => op("bye_sync", &[0]),
        5 => op("clr_rtp", &[0, 0, 0]),
        6 => op("clr_rtcp", &[0, 0, 0]),
        7 => op("prot_rtp", &[0, 0, 0]),
        8 => op("prot_rtcp", &[0, 0, 0]),
        9 => op("bad_rtp", &[0, 0, 0]),
        10 => op("bad_rtcp", &[0, 0, 0]),
        11 => op("bridge", &[0]),
        12 => {
            op("keys", &[2, 0]);
            op("bridge", &[0]);
        }
        13 => op("bridge", &[1]),
        14 => op("unbridge", &[]),
        _ => op("close", &[0]),
    }
}
fn max_len(tier: Tier) -> u32 {
    if tier == Tier::Quick { 3 } else { 4 }
}
fn per_mode(tier: Tier) -> u64 {
    (1..=max_len(tier)).map(|l| (SYMS as u64).pow(l)).sum()
}
pub fn exhaustive_runs(tier: Tier) -> u64 {
    2 * per_mode(tier)
}

pub fn budget(_prop: &str, tier: Tier) -> u64 {
    exhaustive_runs(tier) + if tier == Tier::Quick { 31_264 } else { 360_192 }
}

const KINDS: &[&str] = &["keys", "send_rtp", "send_raw", "send_rtcp", "bye_sync", "clr_rtp", "clr_rtcp", "prot_rtp", "prot_rtcp", "bad_rtp", "bad_rtcp", "bridge", "unbridge", "close", "listen"];

pub fn generate(prop: &str, seed: u64, idx: u64, tier: Tier) -> Plan {
    let mut r = Rng::new(mix(mix(seed, idx), fnv(FNV0, prop.as_bytes())));
    let mut p = Plan { prop: prop.into(), scenario: "srtp_gate".into(), seed: r.next(), ..Default::default() };
    p.sched = Sched { rng_seed: r.next(), defer_pct: 0 };
    p.latency_us = [1000, 1000];
    if idx < exhaustive_runs(tier) {
        // every program of length <= 3 (quick) / <= 4 (thorough) over SYMS, in both modes, sequential
        let mode = idx / per_mode(tier);
        let mut j = idx % per_mode(tier);
        let mut len = 1u32;
        while j >= (SYMS as u64).pow(len) {
            j -= (SYMS as u64).pow(len);
            len += 1;
        }
        p.knobs.insert("mode".into(), mode as i64);
        p.knobs.insert("prof".into(), r.below(3) as i64);
        p.knobs.insert("mux".into(), r.below(2) as i64);
        p.knobs.insert("exhaustive".into(), len as i64);
        for pos in 0..len {
            let sym = (j / (SYMS as u64).pow(len - 1 - pos)) % SYMS as u64;
            symbol(sym as usize, 5 * (pos as u64 + 1), &mut p.ops);
        }
        return p;
    }
    // random programs: up to 14 ops, sequential or from 2-4 racing tasks
    p.knobs.insert("mode".into(), r.below(2) as i64);
    p.knobs.insert("prof".into(), r.below(3) as i64);
    p.knobs.insert("mux".into(), r.below(2) as i64);
    p.knobs.insert("rtcp_cap".into(), *r.pick(&[1, 1, 4, 64]));
    p.knobs.insert("listen0".into(), if r.chance(90) { 1 } else { 0 });
    let racing = r.chance(50);
    let tasks = if racing { r.range(2, 4) } else { 1 };
    p.knobs.insert("tasks".into(), tasks as i64);
    p.latency_us = [r.range(100, 4000), r.range(100, 4000)];
    if r.chance(25) {
        p.latency_us = [*r.pick(&[1u64, 100, 20_000]), *r.pick(&[1u64, 100, 20_000])];
    }
    p.sched.defer_pct = if racing { *r.pick(&[0u8, 10, 30, 50]) } else if r.chance(50) { 0 } else { *r.pick(&[10u8, 30]) };
    // swarm: a per-run subset of the op kinds
    let mut enabled: Vec<&str> = KINDS.iter().copied().filter(|k| r.chance(if *k == "keys" { 90 } else { 65 })).collect();
    if enabled.is_empty() {
        enabled = KINDS.to_vec();
    }
    let nops = if r.chance(20) { r.range(1, 4) } else { r.range(3, 14) };
    let gap = *r.pick(&[0u64, 1, 2, 5, 20]);
    let both_sides = r.chance(50);
    let mut t = 1u64;
    // half of the programs start from the keyed state (deeper receive / bridge paths), the rest from the unkeyed one
    let mut pre = 0;
    if r.chance(50) {
        p.ops.push(Op::new(t, "keys", &[0, 0, 0, r.below(tasks) as i64]));
        pre += 1;
        if both_sides || r.chance(40) {
            p.ops.push(Op::new(t, "keys", &[1, 0, 0, r.below(tasks) as i64]));
            pre += 1;
        }
    }
    for _ in pre..nops.max(pre + 1) {
        let kind = *r.pick(&enabled);
        let side = if both_sides { r.below(2) as i64 } else { 0 };
        let a: Vec<i64> = match kind {
            "keys" => vec![if r.chance(25) { 2 } else if both_sides || r.chance(30) { r.below(2) as i64 } else { 0 }, if r.chance(80) { 0 } else { 1 }, 0],
            "send_rtp" | "send_raw" => vec![side, r.below(3) as i64, r.below(2) as i64],
            "send_rtcp" => vec![side, r.below(4) as i64, 0],
            "bye_sync" | "close" | "listen" => vec![side, 0, 0],
            "bridge" => vec![r.below(2) as i64, r.chance(25) as i64, 0],
            "unbridge" => vec![0, 0, 0],
            // injected packets: variant (stream / rtcp shape, marker, flip position), spoof bit, sub-flavour bit
            _ => vec![side, r.below(64) as i64, r.below(4) as i64],
        };
        let mut a = a;
        a.push(r.below(tasks) as i64);
        p.ops.push(Op::new(t, kind, &a));
        t += if racing { (r.chance(30)) as u64 } else { r.below(gap + 1) };
    }
    // network faults on the genuine peer's real datagrams: corrupted genuine packets are unauthenticated input
    if r.chance(25) {
        for _ in 0..r.range(1, 2) {
            let action = match r.below(4) {
                0 => Action::FlipBit { bit: r.below(640) as u32 },
                1 => Action::Dup { delay_ms: r.range(0, 10), copies: 1 },
                2 => Action::Delay { ms: r.range(1, 20) },
                _ => Action::Truncate { len: r.range(0, 40) as u32 },
            };
            p.faults.push(Rule { from: r.pick(&["A", "B"]).to_string(), class: r.pick(&["RTP", "RTCP"]).to_string(), ordinal: r.below(3) as u32, action });
        }
        p.heal_at_ms = t + 50;
    }
    if racing && r.chance(40) {
        // sends of racing tasks can only overlap inside the transport if a socket send can be suspended
        p.knobs.insert("io_yield_pct".into(), *r.pick(&[10i64, 30, 60]));
    }
    p
}
