//! Plan generators for the sctp_layer scenario (C01, C12, C13). Swarm style: every
//! run draws its own sizes, knob values, workload mix and enabled fault kinds.
use super::Tier;
use crate::plan::*;

const SIZES: &[u64] = &[0, 1, 2, 11, 12, 13, 100, 500, 1000, 1171, 1172, 1173, 1200, 2344, 2345, 4096, 16384, 65536, 262144];
const SETUP: &[&str] = &["SCTP:INIT", "SCTP:INIT_ACK", "SCTP:COOKIE_ECHO", "SCTP:COOKIE_ACK"];
const STEADY: &[&str] = &["SCTP:DATA", "SCTP:SACK", "SCTP:DATA", "SCTP:SACK", "SCTP:HB", "SCTP:HB_ACK", "DTLS:app"];

fn action(r: &mut Rng, late_ok: bool) -> Action {
    match r.below(10) {
        0..=3 => Action::Drop,
        4..=5 => Action::Dup { delay_ms: if late_ok && r.chance(40) { r.range(500, 9000) } else { r.range(0, 300) }, copies: r.range(1, 3) as u8 },
        6..=7 => Action::Delay { ms: if late_ok && r.chance(40) { r.range(500, 12000) } else { r.range(1, 400) } },
        8 => Action::Hold { n: r.range(1, 3) as u32 },
        _ => Action::FlipBit { bit: r.below(4000) as u32 },
    }
}

pub fn generate(prop: &str, seed: u64, idx: u64, tier: Tier) -> Plan {
    let mut r = Rng::new(mix(mix(seed, idx), fnv(FNV0, prop.as_bytes())));
    let mut p = Plan { prop: prop.into(), scenario: "sctp_layer".into(), seed: r.next(), ..Default::default() };
    p.latency_us = [r.range(200, 80_000), r.range(200, 80_000)];
    if r.chance(30) {
        p.latency_us = [r.range(200, 3000), r.range(200, 3000)];
    }
    p.sched = Sched { rng_seed: r.next(), defer_pct: if r.chance(50) { 0 } else { r.range(1, 40) as u8 } };
    // knobs
    let k = &mut p.knobs;
    k.insert("rto_initial_ms".into(), *r.pick(&[200, 500, 1000, 3000]) as i64);
    k.insert("rto_min_ms".into(), *r.pick(&[50, 200, 400, 1000]) as i64);
    k.insert("rto_max_ms".into(), *r.pick(&[1000, 3000, 10_000, 60_000]) as i64);
    k.insert("hb_ms".into(), *r.pick(&[1000, 5000, 15_000, 30_000]) as i64);
    k.insert("max_burst".into(), *r.pick(&[0, 0, 1, 2, 4, 16]) as i64);
    k.insert("max_cwnd".into(), *r.pick(&[16 * 1024, 64 * 1024, 256 * 1024, 1024 * 1024]) as i64);
    k.insert("max_buffered".into(), *r.pick(&[64 * 1024, 256 * 1024, 1024 * 1024]) as i64);
    let small_window = (prop == "C13" && r.chance(60)) || (prop != "C13" && r.chance(20));
    k.insert("rwnd".into(), if small_window { *r.pick(&[4096, 8192, 16384, 65536]) } else { *r.pick(&[32 * 1024, 128 * 1024, 1024 * 1024]) } as i64);
    if r.chance(30) {
        // put the association close to the 2^32 TSN wrap
        k.insert("tsn".into(), (u32::MAX as u64 - r.below(300)) as i64);
    }
    // channels
    let nch: u64 = match prop {
        "C01" => r.range(1, 3),
        "C12" => *r.pick(&[1, 2, 3, 4, 8, 16]),
        _ => r.range(1, 3),
    };
    k.insert("nch".into(), nch as i64);
    for i in 0..nch {
        let code = match prop {
            // C01 judges the reliable ordered channels; from the second channel on the association also carries
            // channels of the other types, whose losses and abandoned messages must not disturb them
            "C01" => {
                if i == 0 || r.chance(55) { 0 } else { r.below(6) }
            }
            "C12" => r.below(6) + if r.chance(45) { 8 } else { 0 } + if r.chance(50) { 16 } else { 0 },
            _ => {
                if r.chance(70) { 0 } else { r.below(6) }
            }
        };
        k.insert(format!("ch{i}"), code as i64);
        k.insert(format!("pr{i}"), *r.pick(&[0, 1, 3, 50, 300, 2000]) as i64);
    }
    // workload
    let max_msgs = match (prop, tier) {
        (_, Tier::Quick) => 40,
        (_, Tier::Thorough) => 200,
    };
    let nmsg = if r.chance(25) { r.range(1, 3) } else { r.range(1, max_msgs) };
    let big_ok = r.chance(25);
    let start = r.range(100, 1500);
    let gap = *r.pick(&[0u64, 0, 1, 5, 20, 100, 400]);
    let senders_per_chan: u64 = if prop == "C12" && r.chance(40) { r.range(2, 8) } else { 1 };
    let both_dirs = r.chance(60);
    let mut t = start;
    for _ in 0..nmsg {
        let side = if both_dirs { r.below(2) } else { 0 };
        let ch = r.below(nch);
        let sender = r.below(senders_per_chan);
        let mut len = if r.chance(50) { *r.pick(SIZES) } else { r.range(0, 3000) };
        if !big_ok && len > 20_000 {
            len = r.range(1200, 5000);
        }
        if senders_per_chan > 1 && len < 12 {
            len = 12 + len;
        }
        p.ops.push(Op::new(t, "send", &[side as i64, ch as i64, sender as i64, len as i64]));
        t += r.below(gap + 1);
    }
    // an in-band channel opened by the peer while data is flowing (its DCEP OPEN / ACK then compete with the
    // bulk transfer for window and send-buffer credit)
    if prop != "C13" && r.chance(25) {
        let i = nch;
        p.knobs.insert("nch".into(), (nch + 1) as i64);
        let creator_b = r.chance(50);
        p.knobs.insert(format!("ch{i}"), (if prop == "C01" { 8 } else { 8 + r.below(6) as i64 }) + if creator_b { 16 } else { 0 });
        p.knobs.insert(format!("pr{i}"), 300);
        p.knobs.insert(format!("late{i}"), r.range(start, t + 200) as i64);
        let side = if creator_b { 1 } else { 0 };
        for k in 0..r.range(1, 3) {
            p.ops.push(Op::new(t + 100 + k * 10, "send", &[side as i64, i as i64, 0, r.range(12, 3000) as i64]));
        }
    }
    // a pre-negotiated channel that both applications register while the association is already in use; its
    // `creator` is the side that talks first
    if prop != "C13" && r.chance(15) {
        let i = p.knobs.get("nch").copied().unwrap_or(nch as i64) as u64;
        p.knobs.insert("nch".into(), (i + 1) as i64);
        let creator_b = r.chance(50);
        p.knobs.insert(format!("ch{i}"), (if prop == "C01" { 0 } else { r.below(6) as i64 }) + if creator_b { 16 } else { 0 });
        p.knobs.insert(format!("pr{i}"), 300);
        let at = r.range(start + 300, t + 600);
        p.knobs.insert(format!("late{i}"), at as i64);
        let side = if creator_b { 1 } else { 0 };
        for k in 0..r.range(1, 4) {
            p.ops.push(Op::new(at + 500 + k * 10, "send", &[side as i64, i as i64, 0, r.range(12, 3000) as i64]));
        }
        if r.chance(40) {
            p.ops.push(Op::new(at + 900, "send", &[1 - side as i64, i as i64, 0, r.range(12, 3000) as i64]));
        }
    }
    if prop == "C12" && r.chance(15) {
        let ch = r.below(nch);
        p.ops.push(Op::new(t + r.range(200, 3000), "close_ch", &[r.below(2) as i64, ch as i64]));
    }
    let last = t;
    // faults
    let mode = r.below(100);
    let fault_span = last + r.range(500, 6000);
    p.heal_at_ms = fault_span;
    if mode < 8 {
        // fault-free control batch: strict equality, no relaxation
        p.heal_at_ms = 0;
    } else {
        if mode < 70 {
            let n = r.range(1, if tier == Tier::Thorough { 6 } else { 4 });
            for _ in 0..n {
                let setup = r.chance(35);
                let class = if setup { *r.pick(SETUP) } else { *r.pick(STEADY) };
                let ordinal = if setup { r.below(2) } else { r.below((nmsg * 2).min(40) + 1) } as u32;
                p.faults.push(Rule { from: if r.chance(50) { "A".into() } else { "B".into() }, class: class.into(), ordinal, action: action(&mut r, true) });
            }
        }
        if mode >= 45 {
            p.bg = Background {
                drop_pm: *r.pick(&[0, 5, 20, 50, 100]) as u32,
                dup_pm: *r.pick(&[0, 5, 20, 50]) as u32,
                delay_pm: *r.pick(&[0, 10, 50, 100]) as u32,
                delay_max_ms: *r.pick(&[5, 50, 300, 2000]),
                flip_pm: *r.pick(&[0, 0, 5, 20]) as u32,
                subseed: r.next(),
                class: "DTLS:app".into(),
            };
        }
        if r.chance(8) {
            let s = r.range(start, last + 1000);
            p.windows.push(Window { from: r.pick(&["A", "B", "*"]).to_string(), start_ms: s, end_ms: s + r.range(100, 8000) });
            p.heal_at_ms = p.heal_at_ms.max(s + 8000);
        }
    }
    if r.chance(15) {
        // socket sends that report WouldBlock now and then: the association's sender and the application's senders
        // get to interleave inside the DTLS / ICE send path as well
        p.knobs.insert("io_yield_pct".into(), *r.pick(&[5i64, 20, 50]));
    }
    if prop == "C13" {
        p.knobs.insert("quiet_s".into(), 125);
        if small_window {
            // hold one early DATA back for a long time so the receiver's window fills with out-of-order data
            p.faults.push(Rule { from: "A".into(), class: "SCTP:DATA".into(), ordinal: r.below(3) as u32, action: Action::Delay { ms: r.range(1500, 6000) } });
            p.heal_at_ms = p.heal_at_ms.max(last + 7000);
        }
    } else {
        if r.chance(10) {
            p.knobs.insert("quiet_s".into(), 20);
        }
        if small_window && p.heal_at_ms > 0 && r.chance(60) {
            // closed-window episodes: hold an early DATA back so the receiver's window fills, and lose some of
            // the SACKs that would reopen it
            let from = if r.chance(50) { "A" } else { "B" };
            let peer = if from == "A" { "B" } else { "A" };
            p.faults.push(Rule { from: from.into(), class: "SCTP:DATA".into(), ordinal: r.below(4) as u32, action: Action::Delay { ms: r.range(800, 5000) } });
            for _ in 0..r.below(4) {
                p.faults.push(Rule { from: peer.into(), class: "SCTP:SACK".into(), ordinal: r.range(1, 30) as u32, action: Action::Drop });
            }
            p.heal_at_ms = p.heal_at_ms.max(last + 6000);
        }
    }
    // C13 and C12: in 10 % of the runs one channel is closed by an application at some instant (possibly while the association
    // is still being set up): what close_data_channel() puts on the wire is subject to the sender rules too
    if prop == "C13" || prop == "C12" {
        let mut rs = Rng::new(mix(mix(seed, idx), 0x636c_6f73_655f_6368));
        if rs.chance(10) {
            let nch = p.knob("nch", 1).max(1) as u64;
            p.ops.push(Op::new(rs.below(6000), "close_ch", &[rs.below(2) as i64, rs.below(nch) as i64]));
            p.ops.sort_by_key(|o| o.at_ms);
        }
    }
    // knob early_send (drawn from its own stream, so that every other choice of the plan stays what it was): in a quarter
    // of the C12 / C01 runs the creator of an in-band channel sends as soon as the association takes data instead of
    // waiting for its own Open (the peer's DCEP ACK), with some of its messages planned right at the start
    if prop == "C12" || prop == "C01" {
        let mut rs = Rng::new(mix(mix(seed, idx), 0x6561_726c_795f_73));
        if rs.chance(25) {
            p.knobs.insert("early_send".into(), 1);
            if rs.chance(60) {
                // (only sends of the creator on an in-band channel that exists from the start: nothing may be sent on a
                // pre-negotiated channel before the peer has registered it, nor by the peer before it learnt of the channel)
                let knobs = p.knobs.clone();
                let early_ok = |o: &Op| {
                    let (side, chi) = (o.arg(0) & 1, o.arg(1));
                    let code = knobs.get(&format!("ch{chi}")).copied().unwrap_or(0);
                    o.kind == "send" && code & 8 != 0 && ((code & 16 != 0) as i64) == side && !knobs.contains_key(&format!("late{chi}"))
                };
                let n = rs.range(1, 4) as usize;
                for o in p.ops.iter_mut().filter(|o| early_ok(o)).take(n) {
                    o.at_ms = rs.below(120);
                }
                p.ops.sort_by_key(|o| o.at_ms);
            }
        }
    }
    p
}
