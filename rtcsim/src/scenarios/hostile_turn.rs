//! Scenario `hostile_turn` (C07, third scenario): a hostile TURN server.
//! World: victim PeerConnection A (10.0.0.1, WebRtc, data channel [+ audio], UDP hosts) configured with one TURN server
//! S = 10.0.0.50:3478 (knob turn_tr: 0 = turn: over UDP, 1 = turn:...?transport=tcp) and long-term credentials; its genuine
//! peer B (10.0.0.2, UDP hosts, no ICE servers). S is played by the harness: it answers like a TURN server (401 with
//! REALM/NONCE, Allocate success with XOR-RELAYED-ADDRESS + LIFETIME, success to Refresh / CreatePermission / ChannelBind)
//! except where plan.ops says otherwise. Genuine A<->B traffic over the host candidates is never touched.
//! plan.ops: kind "turn" a = [stage, shape, n, seed, end]
//!   stage 0 = instead of the answer to the first (unauthenticated) Allocate, 1 = instead of the answer to the
//!         authenticated Allocate, 2 = unsolicited, right after the genuine Allocate success, 3 = instead of the answer to
//!         the (1 + seed % 4)-th request after the allocation (CreatePermission / ChannelBind / Refresh)
//!   shape 0 a well-formed STUN message (class by seed) padded to L in {1501, 2000, 9000, 65535} bytes - over TCP the frame
//!         announces L; 1 (TCP) a frame announcing L in {65535, 1501, 1500, 100} with a shorter body; 2 Data indication
//!         with XOR-PEER-ADDRESS and DATA of 0..4 bytes of every first-byte class; 3 ChannelData (channel 0x4000, or the
//!         channel of the last ChannelBind request) with length 0 / 1 / exact / beyond the datagram; 4 error responses
//!         (401 without REALM / without NONCE, 438 n times, ERROR-CODE of 0..3 bytes, 300, 700); 5 n responses with a
//!         foreign transaction id, then the genuine one; 6 no answer at all; 7 random bytes; 8 n empty frames / empty
//!         datagrams; 9 success with odd contents (no relayed address, IPv6 / family 0 / short relayed address,
//!         LIFETIME 0 / u32::MAX / 1-byte); 10 a truncated genuine answer (every length by seed); 11 a drip: for 120 virtual s
//!         one well-formed response with a foreign transaction id every 400 ms / 2.5 s (each inside the client's receive
//!         timeout) and never the genuine answer
//!   end   0 keep serving, 1 (TCP) FIN after the hostile output, 2 (TCP) the server closes the socket (later bytes are reset)
//! Oracles: C07.panic (panic hook), C07.hang (the offer/answer exchange - which waits for gathering - must return within
//! 90 virtual s; CPU budget as in hostile), C07.alloc (any single allocation request above 64 x hostile bytes + 64 KiB),
//! C07.alive (A and B connect over their host candidates and a data-channel message crosses afterwards).
use super::Tier;
use crate::plan::*;
use crate::rig_pc::{make_config, negotiate, PcKnobs, Peer};
use crate::sim::Ctx;
use rustrtc::transports::sctp::DataChannelEvent;
use rustrtc::verif_hooks as vh;
use std::net::SocketAddr;
use std::sync::{Arc, Mutex};
use std::time::Duration;
use tokio::io::{AsyncReadExt, AsyncWriteExt};

const SHAPES: i64 = 12;
const COOKIE: [u8; 4] = [0x21, 0x12, 0xA4, 0x42];

pub fn budget(_prop: &str, tier: Tier) -> u64 {
    match tier {
        Tier::Quick => 400,
        Tier::Thorough => 12_000,
    }
}

pub fn generate(prop: &str, seed: u64, idx: u64, _tier: Tier) -> Plan {
    let mut r = Rng::new(mix(mix(seed, idx), fnv(FNV0, prop.as_bytes()) ^ 0x7475_726e));
    let mut p = Plan { prop: prop.into(), scenario: "hostile_turn".into(), seed: r.next(), ..Default::default() };
    p.latency_us = [r.range(200, 20_000), r.range(200, 20_000)];
    p.sched = Sched { rng_seed: r.next(), defer_pct: if r.chance(60) { 0 } else { r.range(1, 30) as u8 } };
    p.heal_at_ms = 0;
    // systematic core: every shape x stage x transport once, then swarm
    let core = (SHAPES * 4 * 2) as u64;
    let (tr, ops): (i64, Vec<[i64; 5]>) = if idx < core {
        let i = idx as i64;
        let (shape, stage, tr) = (i % SHAPES, (i / SHAPES) % 4, (i / (SHAPES * 4)) % 2);
        (tr, vec![[stage, shape, *r.pick(&[1i64, 3, 40]), r.below(1 << 30) as i64, 0]])
    } else {
        let n = if r.chance(7) { 0 } else { r.range(1, 4) };
        (r.below(2) as i64, (0..n).map(|_| [*r.pick(&[0i64, 1, 2, 2, 3, 3]), r.below(SHAPES as u64) as i64, *r.pick(&[1i64, 2, 5, 50]), r.below(1 << 30) as i64, r.below(3) as i64]).collect())
    };
    for (i, a) in ops.iter().enumerate() {
        p.ops.push(Op::new(i as u64, "turn", a));
    }
    p.knobs.insert("turn_tr".into(), tr);
    p.knobs.insert("mix".into(), *r.pick(&[0i64, 3]));
    p.knobs.insert("turn_idle_s".into(), *r.pick(&[3i64, 3, 30]));
    p.knobs.insert("tcp_mss".into(), *r.pick(&[0i64, 0, 1448, 100, 7]));
    p.knobs.insert("tcp_recut_pct".into(), *r.pick(&[0i64, 20, 100]));
    p.knobs.insert("tcp_gap_us".into(), *r.pick(&[0i64, 1, 5000]));
    p.knobs.insert("tcp_short_read_pct".into(), *r.pick(&[0i64, 30]));
    p
}

// ---- the harness' own STUN writer / reader (nothing from rustrtc) ----
fn put_attr(b: &mut Vec<u8>, ty: u16, v: &[u8]) {
    b.extend_from_slice(&ty.to_be_bytes());
    b.extend_from_slice(&(v.len() as u16).to_be_bytes());
    b.extend_from_slice(v);
    while b.len() % 4 != 0 {
        b.push(0);
    }
}
pub(crate) fn stun(msg_type: u16, tx: &[u8; 12], attrs: &[(u16, Vec<u8>)]) -> Vec<u8> {
    let mut b = msg_type.to_be_bytes().to_vec();
    b.extend_from_slice(&[0, 0]);
    b.extend_from_slice(&COOKIE);
    b.extend_from_slice(tx);
    for (t, v) in attrs {
        put_attr(&mut b, *t, v);
    }
    let l = (b.len() - 20) as u16;
    b[2..4].copy_from_slice(&l.to_be_bytes());
    b
}
pub(crate) fn xor_addr(a: SocketAddr) -> Vec<u8> {
    let mut v = vec![0u8, 1];
    v.extend_from_slice(&(a.port() ^ 0x2112).to_be_bytes());
    if let std::net::IpAddr::V4(ip) = a.ip() {
        for (i, o) in ip.octets().iter().enumerate() {
            v.push(o ^ COOKIE[i]);
        }
    }
    v
}
pub(crate) struct Req {
    pub(crate) ty: u16,
    pub(crate) tx: [u8; 12],
    pub(crate) has_user: bool,
    pub(crate) channel: Option<u16>,
}
pub(crate) fn parse(d: &[u8]) -> Option<Req> {
    if d.len() < 20 || d[4..8] != COOKIE {
        return None;
    }
    let ty = u16::from_be_bytes([d[0], d[1]]);
    let mut tx = [0u8; 12];
    tx.copy_from_slice(&d[8..20]);
    let (mut o, mut has_user, mut channel) = (20usize, false, None);
    while o + 4 <= d.len() {
        let (t, l) = (u16::from_be_bytes([d[o], d[o + 1]]), u16::from_be_bytes([d[o + 2], d[o + 3]]) as usize);
        if o + 4 + l > d.len() {
            break;
        }
        match t {
            0x0006 => has_user = true,
            0x000C if l >= 2 => channel = Some(u16::from_be_bytes([d[o + 4], d[o + 5]])),
            _ => {}
        }
        o += 4 + ((l + 3) & !3);
    }
    Some(Req { ty, tx, has_user, channel })
}

/// what the server puts on its connection: a message (a datagram over UDP, one RFC 4571 frame over TCP) or, over TCP
/// only, raw bytes
enum Out {
    Msg(Vec<u8>),
    Raw(Vec<u8>),
    /// the server waits that many virtual ms before its next output
    Pause(u64),
}
impl Out {
    fn len(&self) -> usize {
        match self {
            Out::Msg(v) | Out::Raw(v) => v.len(),
            Out::Pause(_) => 0,
        }
    }
}

struct Attack {
    stage: i64,
    shape: i64,
    n: i64,
    seed: u64,
    end: i64,
}

const RELAYED: &str = "10.0.0.50:50000";

pub(crate) fn genuine(req: &Req, stage_now: i64) -> Vec<u8> {
    match (req.ty, stage_now) {
        (0x0003, 0) => stun(0x0113, &req.tx, &[(0x0009, vec![0, 0, 4, 1, b'U', b'n', b'a', b'u']), (0x0014, b"sim.realm".to_vec()), (0x0015, b"nonce-0123456789".to_vec())]),
        (0x0003, _) => stun(0x0103, &req.tx, &[(0x0016, xor_addr(RELAYED.parse().unwrap())), (0x000D, 600u32.to_be_bytes().to_vec()), (0x0020, xor_addr("10.0.0.1:40000".parse().unwrap()))]),
        (0x0004, _) => stun(0x0104, &req.tx, &[(0x000D, 600u32.to_be_bytes().to_vec())]),
        (t, _) => stun(t | 0x0100, &req.tx, &[]),
    }
}

fn hostile(a: &Attack, req: Option<&Req>, stage_now: i64, bound: Option<u16>, peer: SocketAddr) -> Vec<Out> {
    let mut r = Rng::new(a.seed);
    let n = a.n.clamp(1, 50) as usize;
    let tx = req.map(|q| q.tx).unwrap_or([7u8; 12]);
    let rty = req.map(|q| q.ty | 0x0100).unwrap_or(0x0103);
    let mut rnd = |len: usize| {
        let mut v = vec![0u8; len];
        r.fill(&mut v);
        v
    };
    match a.shape {
        0 => {
            let l = [1501usize, 2000, 9000, 65535][(a.seed % 4) as usize];
            let ty = [rty, 0x0017, 0x0113, 0x0101][((a.seed / 4) % 4) as usize];
            let mut m = stun(ty, &tx, &[(0x0016, xor_addr(RELAYED.parse().unwrap()))]);
            let pad = (l - m.len() - 4) & !3;
            put_attr(&mut m, 0x8022, &vec![b'x'; pad]);
            let ml = (m.len() - 20) as u16;
            m[2..4].copy_from_slice(&ml.to_be_bytes());
            vec![Out::Msg(m)]
        }
        1 => {
            let l = [65535usize, 1501, 1500, 100][(a.seed % 4) as usize];
            let have = (a.seed / 4) as usize % l;
            let mut v = (l as u16).to_be_bytes().to_vec();
            v.extend(rnd(have));
            vec![Out::Raw(v)]
        }
        2 => (0..n)
            .map(|i| {
                let dl = (a.seed as usize + i) % 5;
                let mut d = rnd(dl);
                if let Some(x) = d.first_mut() {
                    *x = [0u8, 1, 22, 64, 128, 200, 255][(a.seed as usize / 5 + i) % 7];
                }
                let from = if (a.seed / 64) % 2 == 0 { peer } else { "10.9.9.9:9".parse().unwrap() };
                Out::Msg(stun(0x0017, &rnd(12).try_into().unwrap(), &[(0x0012, xor_addr(from)), (0x0013, d)]))
            })
            .collect(),
        3 => (0..n)
            .map(|i| {
                let ch = if (a.seed / 8) % 2 == 0 { bound.unwrap_or(0x4000) } else { 0x4000 + (a.seed % 0x3fff) as u16 };
                let body = rnd([0usize, 1, 4, 20][(a.seed as usize + i) % 4]);
                let claimed = match (a.seed / 16 + i as u64) % 3 {
                    0 => body.len(),
                    1 => body.len() + 1 + (a.seed % 1000) as usize,
                    _ => 0,
                };
                let mut v = ch.to_be_bytes().to_vec();
                v.extend_from_slice(&(claimed as u16).to_be_bytes());
                v.extend(body);
                Out::Msg(v)
            })
            .collect(),
        4 => match a.seed % 6 {
            0 => vec![Out::Msg(stun(rty | 0x0010, &tx, &[(0x0009, vec![0, 0, 4, 1]), (0x0015, b"n".to_vec())]))],
            1 => vec![Out::Msg(stun(rty | 0x0010, &tx, &[(0x0009, vec![0, 0, 4, 1]), (0x0014, b"r".to_vec())]))],
            2 => (0..n).map(|_| Out::Msg(stun(rty | 0x0010, &tx, &[(0x0009, vec![0, 0, 4, 38]), (0x0014, b"r".to_vec()), (0x0015, rnd(16))]))).collect(),
            3 => vec![Out::Msg(stun(rty | 0x0010, &tx, &[(0x0009, rnd((a.seed / 6) as usize % 4))]))],
            4 => vec![Out::Msg(stun(rty | 0x0010, &tx, &[(0x0009, vec![0, 0, 3, 0]), (0x8023, xor_addr(peer))]))],
            _ => vec![Out::Msg(stun(rty | 0x0010, &tx, &[(0x0009, vec![0, 0, 7, 99, 0xff, 0xfe])]))],
        },
        5 => {
            let mut v: Vec<Out> = (0..n).map(|_| Out::Msg(stun(rty, &rnd(12).try_into().unwrap(), &[(0x0016, xor_addr(RELAYED.parse().unwrap()))]))).collect();
            if let Some(q) = req {
                v.push(Out::Msg(genuine(q, stage_now)));
            }
            v
        }
        6 => vec![],
        7 => vec![Out::Msg(rnd(1 + (a.seed % 1400) as usize))],
        8 => (0..n).map(|_| Out::Msg(Vec::new())).collect(),
        11 => {
            let gap = if a.seed % 2 == 0 { 400 } else { 2500 };
            let mut v = Vec::new();
            for _ in 0..(120_000 / gap) {
                v.push(Out::Msg(stun(rty, &rnd(12).try_into().unwrap(), &[(0x0016, xor_addr(RELAYED.parse().unwrap()))])));
                v.push(Out::Pause(gap));
            }
            v
        }
        9 => {
            let rel = match a.seed % 5 {
                0 => None,
                1 => Some({
                    let mut v = vec![0u8, 2, 0x11, 0x22];
                    v.extend(rnd(16));
                    v
                }),
                2 => Some(vec![0u8, 0, 1, 2, 3, 4, 5, 6]),
                3 => Some(vec![0u8, 1, 9]),
                _ => Some(xor_addr(RELAYED.parse().unwrap())),
            };
            let life = match (a.seed / 5) % 4 {
                0 => 0u32.to_be_bytes().to_vec(),
                1 => u32::MAX.to_be_bytes().to_vec(),
                2 => vec![1u8],
                _ => 1u32.to_be_bytes().to_vec(),
            };
            let mut attrs = vec![(0x000Du16, life)];
            if let Some(v) = rel {
                attrs.push((0x0016, v));
            }
            vec![Out::Msg(stun(rty, &tx, &attrs))]
        }
        _ => {
            let g = req.map(|q| genuine(q, stage_now)).unwrap_or_else(|| stun(0x0103, &tx, &[]));
            let cut = (a.seed as usize) % g.len();
            vec![Out::Msg(g[..cut].to_vec())]
        }
    }
}

/// the server's decisions for one client (one 5-tuple / one TCP connection)
struct Script {
    attacks: Vec<Attack>,
    fired: Vec<bool>,
    allocated: bool,
    post_reqs: u32,
    bound: Option<u16>,
    peer: SocketAddr,
    hostile_bytes: usize,
    /// what the connection should do after this batch (TCP): 1 FIN, 2 RST
    end: i64,
}
impl Script {
    fn take(&mut self, stage: i64) -> Vec<usize> {
        self.take_if(stage, |_| true)
    }
    fn take_if(&mut self, stage: i64, f: impl Fn(&Attack) -> bool) -> Vec<usize> {
        let v: Vec<usize> = self.attacks.iter().enumerate().filter(|(i, a)| a.stage == stage && !self.fired[*i] && f(a)).map(|(i, _)| i).collect();
        for i in &v {
            self.fired[*i] = true;
        }
        v
    }
    fn on_request(&mut self, ctx: &Ctx, d: &[u8]) -> Vec<Out> {
        let Some(q) = parse(d) else { return vec![] };
        if q.ty & 0x0110 != 0 {
            return vec![]; // indications (Send) and responses: a relay would forward / ignore
        }
        ctx.stat(&format!("probe.turn.req.{:04x}", q.ty), 1);
        if q.channel.is_some() && q.ty == 0x0009 {
            self.bound = q.channel;
        }
        let stage_now = match (q.ty, q.has_user, self.allocated) {
            (0x0003, false, _) => 0,
            (0x0003, true, _) => 1,
            _ => 3,
        };
        if stage_now == 3 {
            self.post_reqs += 1;
        }
        // a stage-3 input waits for the (1 + seed % 4)-th request after the allocation, so that some land on / after a ChannelBind
        let due = self.post_reqs as u64;
        let hits = self.take_if(stage_now, |a| stage_now != 3 || 1 + a.seed % 4 <= due);
        let mut out = Vec::new();
        if hits.is_empty() {
            out.push(Out::Msg(genuine(&q, stage_now)));
            if stage_now == 1 {
                self.allocated = true;
                for i in self.take(2) {
                    let a = &self.attacks[i];
                    self.note(ctx, a, 2);
                    let h = hostile(a, None, 2, self.bound, self.peer);
                    self.hostile_bytes += h.iter().map(|o| o.len()).sum::<usize>();
                    self.end = self.end.max(a.end);
                    out.extend(h);
                }
            }
        } else {
            for i in hits {
                let a = &self.attacks[i];
                self.note(ctx, a, stage_now);
                let h = hostile(a, Some(&q), stage_now, self.bound, self.peer);
                if self.bound.is_some() {
                    ctx.stat("probe.turn.hostile_with_bound_channel", 1);
                }
                self.hostile_bytes += h.iter().map(|o| o.len()).sum::<usize>();
                self.end = self.end.max(a.end);
                out.extend(h);
            }
        }
        out
    }
    fn note(&self, ctx: &Ctx, a: &Attack, stage: i64) {
        let desc = format!("turn shape={} n={} seed={} end={} stage={}", a.shape, a.n, a.seed, a.end, stage);
        crate::sim::set_last_input(&desc);
        ctx.ev(&format!("hostile turn shape={} stage={} end={}", a.shape, stage, a.end), &desc);
        ctx.stat("nontrivial", 1);
        ctx.stat(&format!("hostile.turn.shape.{}", a.shape), 1);
        ctx.stat(&format!("hostile.turn.stage.{stage}"), 1);
    }
}

async fn serve_udp(ctx: &Ctx, sock: Arc<vh::UdpSocket>, script: Arc<Mutex<Script>>) {
    let mut buf = vec![0u8; 4096];
    loop {
        let Ok((n, from)) = sock.recv_from(&mut buf).await else { break };
        let outs = script.lock().unwrap().on_request(ctx, &buf[..n]);
        for o in outs {
            let v = match o {
                Out::Msg(v) | Out::Raw(v) => v,
                Out::Pause(ms) => {
                    tokio::time::sleep(Duration::from_millis(ms)).await;
                    continue;
                }
            };
            // a datagram cannot exceed 65507 bytes
            let _ = sock.send_to(&v[..v.len().min(65_507)], from).await;
        }
    }
}

async fn serve_tcp(ctx: &Ctx, l: Arc<crate::net::tcp::SimTcpL>, script: Arc<Mutex<Script>>) {
    loop {
        let Ok((raw, _peer)) = std::future::poll_fn(|cx| vh::SimTcpListener::poll_accept(&*l, cx)).await else { break };
        let mut s = vh::TcpStream::from_sim(raw);
        ctx.stat("hostile.turn.tcp_accepted", 1);
        // one connection at a time is all the client opens per allocation
        loop {
            let mut h = [0u8; 2];
            if s.read_exact(&mut h).await.is_err() {
                break;
            }
            let mut body = vec![0u8; u16::from_be_bytes(h) as usize];
            if s.read_exact(&mut body).await.is_err() {
                break;
            }
            let (outs, end) = {
                let mut sc = script.lock().unwrap();
                let o = sc.on_request(ctx, &body);
                (o, std::mem::take(&mut sc.end))
            };
            let mut failed = false;
            for o in outs {
                let bytes = match o {
                    Out::Msg(v) => {
                        let mut f = (v.len() as u16).to_be_bytes().to_vec();
                        f.extend(v);
                        f
                    }
                    Out::Raw(v) => v,
                    Out::Pause(ms) => {
                        tokio::time::sleep(Duration::from_millis(ms)).await;
                        continue;
                    }
                };
                if s.write_all(&bytes).await.is_err() {
                    failed = true;
                    break;
                }
            }
            match end {
                1 => {
                    let _ = s.shutdown().await;
                }
                2 => failed = true, // both halves dropped: closed at once, whatever arrives later is answered by RST
                _ => {}
            }
            if failed {
                break;
            }
        }
    }
}

/// A well-behaved TURN server on 10.0.0.50:3478 (tr: 1 = UDP, 2 = TCP) for scenarios that only need an allocation to
/// exist (no hostile output, nothing relayed). Runs until the caller drops / aborts it.
pub(crate) async fn serve_benign(ctx: &Ctx, tr: i64) {
    let script = Arc::new(Mutex::new(Script { fired: Vec::new(), attacks: Vec::new(), allocated: false, post_reqs: 0, bound: None, peer: "10.0.0.2:5000".parse().unwrap(), hostile_bytes: 0, end: 0 }));
    let s_addr: SocketAddr = "10.0.0.50:3478".parse().unwrap();
    if tr == 2 {
        if let Ok(l) = ctx.net.tcp_listen(s_addr) {
            serve_tcp(ctx, l, script).await;
        }
    } else if let Ok(s) = ctx.net.bind(s_addr) {
        serve_udp(ctx, Arc::new(vh::UdpSocket::from_sim(s)), script).await;
    }
}

pub async fn run(ctx: &Ctx) {
    super::hostile::mark_run_start_cpu();
    ctx.net.install_binder();
    let tr = ctx.plan.knob("turn_tr", 0);
    let k = PcKnobs { mode: 0, mix: ctx.plan.knob("mix", 0), bundle: 0, mux: 0, lite: 0, udpmux: 0, latch: 0, compat: 0, offerer: 0, tcp: 0 };
    let mut cfg_a = make_config(&k, 0, &ctx.plan);
    let url = if tr == 1 { "turn:10.0.0.50:3478?transport=tcp" } else { "turn:10.0.0.50:3478" };
    cfg_a.ice_servers = vec![rustrtc::IceServer::new(vec![url.to_string()]).with_credential("simuser", "simpass")];
    let mut a = Peer::with_config("A", cfg_a);
    let mut b = Peer::new(ctx, &k, 1);
    a.add_dc(true);
    b.add_dc(true);
    a.add_media(&k);
    let attacks: Vec<Attack> = ctx.plan.ops.iter().filter(|o| o.kind == "turn").map(|o| Attack { stage: o.arg(0), shape: o.arg(1), n: o.arg(2), seed: o.arg(3) as u64, end: o.arg(4) }).collect();
    let n_attacks = attacks.len();
    let script = Arc::new(Mutex::new(Script { fired: vec![false; n_attacks], attacks, allocated: false, post_reqs: 0, bound: None, peer: "10.0.0.2:5000".parse().unwrap(), hostile_bytes: 0, end: 0 }));
    let s_addr: SocketAddr = "10.0.0.50:3478".parse().unwrap();
    let _ = crate::alloc_count::take_max_single();
    let server = async {
        if tr == 1 {
            match ctx.net.tcp_listen(s_addr) {
                Ok(l) => serve_tcp(ctx, l, script.clone()).await,
                Err(e) => ctx.violate("HARNESS.hostile_turn", format!("listen S: {e}")),
            }
        } else {
            match ctx.net.bind(s_addr) {
                Ok(s) => serve_udp(ctx, Arc::new(vh::UdpSocket::from_sim(s)), script.clone()).await,
                Err(e) => ctx.violate("HARNESS.hostile_turn", format!("bind S: {e}")),
            }
        }
    };
    let world = async {
        let wall = std::time::Instant::now();
        let neg = tokio::time::timeout(Duration::from_secs(90), negotiate(&mut a, &mut b, &k, ctx)).await;
        let neg_ok = match &neg {
            Ok(Ok(_)) => true,
            Ok(Err(e)) => {
                ctx.ev("negotiation failed", e);
                false
            }
            Err(_) => {
                if crate::sim::panic_count() == 0 {
                    ctx.violate("C07.hang", format!("the offer/answer exchange (which waits for candidate gathering) did not return within 90 virtual s with the TURN server ({}) behaving as plan.ops say", if tr == 1 { "TCP" } else { "UDP" }));
                }
                false
            }
        };
        if crate::sim::panic_count() == 0 && super::hostile::over_budget(wall.elapsed()) {
            ctx.violate("C07.hang", format!("gathering against the hostile TURN server took {:.1} s of wall clock", wall.elapsed().as_secs_f64()));
        }
        // let the relay traffic (permissions, channel binds, checks through the relay) and stage 2/3 inputs happen
        let connected = neg_ok && tokio::time::timeout(Duration::from_secs(60), async { a.pc.wait_for_connected().await.is_ok() && b.pc.wait_for_connected().await.is_ok() }).await.unwrap_or(false);
        // knob turn_idle_s = 30: long enough for the 25 s TURN refresh / permission-renewal cycle to run against the server
        tokio::time::sleep(Duration::from_secs(ctx.plan.knob("turn_idle_s", 3).clamp(1, 120) as u64)).await;
        let hostile_bytes = script.lock().unwrap().hostile_bytes;
        let single = crate::alloc_count::take_max_single();
        let limit = 64 * hostile_bytes as u64 + 64 * 1024 + 72 * 1024;
        if hostile_bytes > 0 && single > limit && crate::sim::panic_count() == 0 {
            ctx.violate("C07.alloc", format!("a single allocation request of {single} bytes in a run with {hostile_bytes} hostile TURN bytes (allowance {limit})"));
        }
        crate::sim::set_last_input("");
        if crate::sim::panic_count() == 0 && !matches!(neg, Err(_)) {
            if !connected {
                ctx.violate("C07.alive", format!("the genuine pair did not connect over its host candidates (negotiation ok: {neg_ok}) with {n_attacks} hostile TURN input(s) around"));
            } else if let (Some(da), Some(db)) = (a.dc.clone(), b.dc.clone()) {
                let pa = a.pc.clone();
                let r = tokio::time::timeout(Duration::from_secs(60), async {
                    while da.state.load(std::sync::atomic::Ordering::SeqCst) != rustrtc::DataChannelState::Open as usize {
                        tokio::time::sleep(Duration::from_millis(10)).await;
                    }
                    pa.send_data(da.id, b"PING after hostile turn").await.map_err(|e| e.to_string())?;
                    loop {
                        match db.recv().await {
                            Some(DataChannelEvent::Message(m)) if &m[..] == b"PING after hostile turn" => return Ok::<(), String>(()),
                            Some(_) => {}
                            None => return Err("channel closed".into()),
                        }
                    }
                })
                .await;
                match r {
                    Ok(Ok(())) => ctx.ev("alive ok", ""),
                    other => ctx.violate("C07.alive", format!("data-channel message A>B after the hostile TURN inputs: {other:?}")),
                }
            }
        }
        let fired = script.lock().unwrap().fired.iter().filter(|f| **f).count();
        ctx.stat("hostile.turn.fired", fired as u64);
        ctx.stat("hostile.turn.unfired", (n_attacks - fired) as u64);
        a.pc.close();
        b.pc.close();
    };
    tokio::select! {
        _ = server => {}
        _ = world => {}
    }
    drop(a);
    drop(b);
    tokio::time::sleep(Duration::from_millis(200)).await;
    ctx.stat("virt_ms", ctx.now_ms());
}
