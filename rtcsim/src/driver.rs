//! Master/worker batch driver: seeds -> plans -> runs (in worker processes) -> shrink ->
//! self-replay -> known-findings match -> VIOLATION / KNOWN-FINDING lines + evidence file.
use crate::known::{self, Finding};
use crate::plan::*;
use crate::scenarios::{self, Tier};
use crate::shrink;
use crate::sim::run_plan;
use serde_json::json;
use std::collections::{BTreeMap, HashSet};
use std::io::{BufRead, BufReader, Write};
use std::process::{Command, Stdio};
use std::sync::mpsc;
use std::time::{Duration, Instant};

pub const DEFAULT_SEED: u64 = 20260925;

pub fn verif_root() -> String {
    let p = std::path::Path::new(env!("CARGO_MANIFEST_DIR")).parent().map(|p| p.to_path_buf()).unwrap_or_else(|| "/verif".into());
    p.to_string_lossy().to_string()
}

pub fn env_seed() -> u64 {
    std::env::var("VERIF_SEED").ok().and_then(|s| s.trim().parse::<u64>().ok()).unwrap_or(DEFAULT_SEED)
}

pub fn worker(prop: &str, tier: Tier, seed: u64, w: u64, nw: u64, n: u64, skip_to: u64) {
    let out = std::io::stdout();
    let mut idx = w;
    while idx < n {
        if idx >= skip_to {
            let Some(plan) = scenarios::generate(prop, seed, idx, tier) else {
                eprintln!("no generator for {prop}");
                std::process::exit(2);
            };
            {
                let mut o = out.lock();
                let _ = writeln!(o, "S {idx}");
                let _ = o.flush();
            }
            let mut oc = run_plan(&plan, false);
            oc.log.clear();
            oc.fired.truncate(0);
            let mut o = out.lock();
            let _ = writeln!(o, "R {}", serde_json::to_string(&json!({"idx": idx, "o": oc, "faults": plan.faults.len(), "ops": plan.ops.len()})).unwrap());
            let _ = o.flush();
        }
        idx += nw;
    }
}

/// every spawned worker process gets its own generation number: messages of a worker that the watchdog has killed and
/// replaced must not be attributed to its replacement in the same slot
static WORKER_GEN: std::sync::atomic::AtomicU64 = std::sync::atomic::AtomicU64::new(1);

/// CPU time (user + system, in clock ticks) a process has consumed so far
fn proc_cpu_ticks(pid: u32) -> Option<u64> {
    let s = std::fs::read_to_string(format!("/proc/{pid}/stat")).ok()?;
    let rest = &s[s.rfind(')')? + 2..];
    let f: Vec<&str> = rest.split_whitespace().collect();
    Some(f.get(11)?.parse::<u64>().ok()? + f.get(12)?.parse::<u64>().ok()?)
}

/// (slot, generation, ..)
enum Msg {
    Start(u64, u64, u64),
    Result(u64, u64, serde_json::Value),
    Eof(u64, u64),
}

struct WorkerProc {
    child: std::process::Child,
    current: Option<u64>,
    last: Instant,
    done: bool,
    generation: u64,
    /// CPU ticks of the child when `last` was set, and how often the watchdog has already granted more time because
    /// the child had hardly been scheduled (an overloaded machine is not a hang)
    cpu_at_last: u64,
    extensions: u32,
}

fn spawn_worker(prop: &str, tier: Tier, seed: u64, w: u64, nw: u64, n: u64, skip_to: u64, tx: mpsc::Sender<Msg>) -> WorkerProc {
    let exe = std::env::current_exe().expect("current_exe");
    let mut child = Command::new(exe)
        .args(["worker", prop, if tier == Tier::Quick { "quick" } else { "thorough" }, &seed.to_string(), &w.to_string(), &nw.to_string(), &n.to_string(), &skip_to.to_string()])
        .stdout(Stdio::piped())
        .stderr(Stdio::null())
        .spawn()
        .expect("spawn worker");
    let so = child.stdout.take().unwrap();
    let generation = WORKER_GEN.fetch_add(1, std::sync::atomic::Ordering::SeqCst);
    std::thread::spawn(move || {
        let rd = BufReader::new(so);
        for line in rd.lines() {
            let Ok(line) = line else { break };
            if let Some(r) = line.strip_prefix("S ") {
                if let Ok(i) = r.trim().parse() {
                    let _ = tx.send(Msg::Start(w, generation, i));
                }
            } else if let Some(r) = line.strip_prefix("R ") {
                if let Ok(v) = serde_json::from_str::<serde_json::Value>(r) {
                    let _ = tx.send(Msg::Result(w, generation, v));
                }
            }
        }
        let _ = tx.send(Msg::Eof(w, generation));
    });
    let cpu_at_last = proc_cpu_ticks(child.id()).unwrap_or(0);
    WorkerProc { child, current: None, last: Instant::now(), done: false, generation, cpu_at_last, extensions: 0 }
}

pub struct Found {
    pub idx: u64,
    pub oracle: String,
    pub detail: String,
}

pub struct BatchResult {
    pub evaluations: u64,
    pub distinct: u64,
    pub distinct_nontrivial: u64,
    pub nontrivial: u64,
    pub virt_ms: u64,
    pub events: u64,
    pub stats: BTreeMap<String, u64>,
    pub found: Vec<Found>,
    pub hangs: Vec<u64>,
    pub harness_errors: Vec<String>,
}

pub fn run_batch(prop: &str, tier: Tier, seed: u64, n: u64, wall_cap: Duration) -> BatchResult {
    let nw: u64 = std::env::var("VERIF_WORKERS").ok().and_then(|s| s.parse().ok()).unwrap_or_else(|| std::thread::available_parallelism().map(|x| x.get() as u64).unwrap_or(8)).min(n.max(1));
    let hang_secs: u64 = std::env::var("VERIF_HANG_SECS").ok().and_then(|s| s.parse().ok()).unwrap_or(90);
    let (tx, rx) = mpsc::channel();
    let mut procs: Vec<WorkerProc> = (0..nw).map(|w| spawn_worker(prop, tier, seed, w, nw, n, 0, tx.clone())).collect();
    let mut res = BatchResult { evaluations: 0, distinct: 0, distinct_nontrivial: 0, nontrivial: 0, virt_ms: 0, events: 0, stats: BTreeMap::new(), found: Vec::new(), hangs: Vec::new(), harness_errors: Vec::new() };
    let mut seen: HashSet<u64> = HashSet::new();
    let mut seen_nt: HashSet<u64> = HashSet::new();
    let t0 = Instant::now();
    let mut capped = false;
    loop {
        if procs.iter().all(|p| p.done) {
            break;
        }
        let mut idle = false;
        match rx.recv_timeout(Duration::from_millis(500)) {
            Ok(Msg::Start(w, g, i)) => {
                let p = &mut procs[w as usize];
                if p.generation != g {
                    continue; // a worker the watchdog has replaced
                }
                p.current = Some(i);
                p.last = Instant::now();
                p.cpu_at_last = proc_cpu_ticks(p.child.id()).unwrap_or(p.cpu_at_last);
                p.extensions = 0;
            }
            Ok(Msg::Result(w, g, v)) => {
                let p = &mut procs[w as usize];
                if p.generation != g {
                    continue;
                }
                p.current = None;
                p.last = Instant::now();
                p.cpu_at_last = proc_cpu_ticks(p.child.id()).unwrap_or(p.cpu_at_last);
                p.extensions = 0;
                let idx = v["idx"].as_u64().unwrap_or(0);
                let o: Outcome = match serde_json::from_value(v["o"].clone()) {
                    Ok(o) => o,
                    Err(e) => {
                        res.harness_errors.push(format!("bad worker record: {e}"));
                        continue;
                    }
                };
                res.evaluations += 1;
                res.virt_ms += o.virt_ms;
                res.events += o.events;
                if seen.insert(o.trace_hash) {
                    res.distinct += 1;
                }
                if o.nontrivial {
                    res.nontrivial += 1;
                    if seen_nt.insert(o.trace_hash) {
                        res.distinct_nontrivial += 1;
                    }
                }
                for (k, n) in o.stats.iter() {
                    if k != "virt_ms" && k != "nontrivial" {
                        *res.stats.entry(k.clone()).or_insert(0) += n;
                    }
                }
                for vv in o.violations {
                    if vv.oracle.starts_with("HARNESS.") {
                        res.harness_errors.push(format!("run {idx}: {} {}", vv.oracle, vv.detail));
                    } else {
                        res.found.push(Found { idx, oracle: vv.oracle, detail: vv.detail });
                    }
                }
            }
            Ok(Msg::Eof(w, g)) => {
                let p = &mut procs[w as usize];
                if p.generation != g {
                    continue;
                }
                let st = p.child.wait().ok();
                if let Some(i) = p.current.take() {
                    // died in the middle of a run (abort / stack overflow / OOM)
                    res.found.push(Found { idx: i, oracle: format!("{prop}.abort"), detail: format!("worker process died during run {i}: {st:?}") });
                    if !capped {
                        *p = spawn_worker(prop, tier, seed, w, nw, n, i + 1, tx.clone());
                        continue;
                    }
                }
                p.done = true;
            }
            Err(mpsc::RecvTimeoutError::Timeout) => idle = true,
            Err(_) => break,
        }
        // watchdog - only when no worker message is waiting: a starved master with a backlog of unread results must
        // not mistake its own lag for a worker's silence
        if !idle {
            continue;
        }
        for w in 0..procs.len() {
            let p = &mut procs[w];
            if !p.done && p.current.is_some() && p.last.elapsed() > Duration::from_secs(hang_secs) {
                // a run that has had less than a quarter of the limit in CPU time was starved, not hung (up to 20 times)
                let cpu = proc_cpu_ticks(p.child.id()).unwrap_or(u64::MAX);
                if cpu.saturating_sub(p.cpu_at_last) < hang_secs * 100 / 4 && p.extensions < 20 {
                    p.extensions += 1;
                    p.last = Instant::now();
                    p.cpu_at_last = cpu;
                    *res.stats.entry("batch.watchdog_extension_for_a_starved_worker".into()).or_insert(0) += 1;
                    continue;
                }
                let i = p.current.take().unwrap();
                let _ = p.child.kill();
                let _ = p.child.wait();
                res.hangs.push(i);
                *p = spawn_worker(prop, tier, seed, w as u64, nw, n, i + 1, tx.clone());
            }
        }
        if !capped && t0.elapsed() > wall_cap {
            capped = true;
            for p in procs.iter_mut() {
                let _ = p.child.kill();
                p.current = None;
            }
            res.stats.insert("batch.wall_capped".into(), 1);
        }
    }
    res
}

fn tag_of(prop: &str) -> String {
    format!("{prop}.")
}

pub struct CheckCfg {
    pub prop: String,
    pub tier: Tier,
    pub level: &'static str,
    pub rule: String,
    pub assumptions: Vec<String>,
    pub components: serde_json::Value,
}

pub fn replay_file(path: &str, verbose: bool) -> i32 {
    let s = match std::fs::read_to_string(path) {
        Ok(s) => s,
        Err(e) => {
            eprintln!("cannot read {path}: {e}");
            return 2;
        }
    };
    let rp: Replay = match serde_json::from_str(&s) {
        Ok(r) => r,
        Err(e) => {
            eprintln!("cannot parse {path}: {e}");
            return 2;
        }
    };
    let o = run_plan(&rp.plan, verbose);
    if verbose {
        for l in o.log.iter() {
            println!("{l}");
        }
    }
    let hit = o.violations.iter().find(|v| v.oracle == rp.oracle);
    println!("replay {path}: log_hash={:016x} (recorded {:016x}) events={} virt_ms={}", o.log_hash, rp.log_hash, o.events, o.virt_ms);
    match hit {
        Some(v) if o.log_hash == rp.log_hash => {
            println!("REPRODUCED oracle={} detail={}", v.oracle, v.detail);
            println!("VIOLATION property={} replay={}", rp.property, path);
            1
        }
        Some(v) => {
            println!("REPRODUCED-WITH-DIFFERENT-TRACE oracle={} detail={}", v.oracle, v.detail);
            println!("VIOLATION property={} replay={}", rp.property, path);
            1
        }
        None => {
            println!("NOT REPRODUCED: oracle {} did not fire; violations now: {:?}", rp.oracle, o.violations);
            0
        }
    }
}

/// Runs `rtcsim replay <file>` in a fresh process; true iff it reproduces with the same log hash.
fn self_replay(path: &str) -> bool {
    let exe = std::env::current_exe().expect("current_exe");
    match Command::new(exe).args(["replay", path]).output() {
        Ok(o) => {
            let s = String::from_utf8_lossy(&o.stdout);
            o.status.code() == Some(1) && s.contains("REPRODUCED oracle=")
        }
        Err(_) => false,
    }
}

pub fn check(cfg: CheckCfg) -> i32 {
    let t0 = Instant::now();
    let seed = env_seed();
    let prop = cfg.prop.clone();
    let scale: f64 = std::env::var("VERIF_BUDGET_SCALE").ok().and_then(|s| s.parse().ok()).unwrap_or(1.0);
    let n = ((scenarios::budget(&prop, cfg.tier) as f64) * scale).max(1.0) as u64;
    let wall_cap = Duration::from_secs(match cfg.tier {
        Tier::Quick => 600,
        Tier::Thorough => 3 * 3600,
    });
    println!("check {prop} tier={:?} seed={seed} runs={n}", cfg.tier);
    let findings: Vec<Finding> = known::load().into_iter().filter(|f| f.property == prop).collect();
    let mut exit = 0;
    let mut known_lines: Vec<String> = Vec::new();
    let mut violations_new = 0u32;
    let mut replay_paths: Vec<String> = Vec::new();

    // 1. regression run per open known finding
    for f in findings.iter().filter(|f| f.is_open()) {
        if let Some(plan) = &f.regression_plan {
            let o = run_plan(plan, false);
            if o.violations.iter().any(|v| v.oracle == f.oracle) {
                known_lines.push(format!("KNOWN-FINDING: property={} {} [{}]", f.property, f.what, f.id));
            } else {
                println!("NOTE: known finding {} no longer reproduces with its regression plan (fixed upstream?)", f.id);
            }
        } else {
            known_lines.push(format!("KNOWN-FINDING: property={} {} [{}]", f.property, f.what, f.id));
        }
    }

    // 1b. regression plans of fixed findings: must NOT reproduce any more
    let mut regressions_run = 0u32;
    if let Ok(rd) = std::fs::read_dir(format!("{}/regressions", verif_root())) {
        let mut files: Vec<_> = rd.filter_map(|e| e.ok()).map(|e| e.path()).filter(|p| p.extension().map(|x| x == "json").unwrap_or(false)).collect();
        files.sort();
        for f in files {
            let Ok(txt) = std::fs::read_to_string(&f) else { continue };
            let Ok(rp) = serde_json::from_str::<Replay>(&txt) else {
                println!("HARNESS ERROR: regression file {} does not parse", f.display());
                exit = 2;
                continue;
            };
            if rp.property != prop {
                continue;
            }
            regressions_run += 1;
            let o = run_plan(&rp.plan, false);
            if let Some(v) = o.violations.iter().find(|v| v.oracle == rp.oracle) {
                println!("  regression {}: {} {}", f.display(), v.oracle, v.detail);
                println!("VIOLATION property={prop} replay={}", f.display());
                violations_new += 1;
                replay_paths.push(f.display().to_string());
                exit = exit.max(1);
            }
            if o.violations.iter().any(|v| v.oracle.starts_with("HARNESS.")) {
                println!("HARNESS ERROR in regression {}: {:?}", f.display(), o.violations);
                exit = 2;
            }
        }
    }

    // 2. exploratory batch
    let br = run_batch(&prop, cfg.tier, seed, n, wall_cap);
    for e in br.harness_errors.iter().take(10) {
        println!("HARNESS ERROR: {e}");
    }
    if !br.harness_errors.is_empty() {
        exit = 2;
    }
    let mine: Vec<&Found> = br.found.iter().filter(|f| f.oracle.starts_with(&tag_of(&prop))).collect();
    // oracles of OTHER properties that fired in this batch are not this check's verdict, but they are not silence
    // either: list them (the owning property's generator should be able to produce the same workload)
    {
        let mut other: BTreeMap<String, (usize, u64)> = BTreeMap::new();
        for f in br.found.iter().filter(|f| !f.oracle.starts_with(&tag_of(&prop)) && !f.oracle.starts_with("HARNESS.")) {
            let e = other.entry(f.oracle.clone()).or_insert((0, f.idx));
            e.0 += 1;
        }
        for (o, (n, idx)) in other.iter() {
            println!("NOTE: oracle {o} of another property fired in {n} report(s) of this batch (e.g. run {idx}); not judged by this check");
        }
    }
    let mut by_oracle: BTreeMap<String, Vec<&Found>> = BTreeMap::new();
    for f in mine.iter() {
        by_oracle.entry(f.oracle.clone()).or_default().push(f);
    }
    let max_shrinks_per_oracle: usize = std::env::var("VERIF_MAX_SHRINKS").ok().and_then(|s| s.parse().ok()).unwrap_or(6);
    let mut samples_viol: Vec<serde_json::Value> = Vec::new();
    let mut unshrunk_total = 0usize;
    for (oracle, list) in by_oracle.iter() {
        println!("oracle {oracle}: {} failing runs (e.g. idx {})", list.len(), list[0].idx);
        let mut known_hits = 0;
        let mut new_hits = 0;
        let mut seen_idx = HashSet::new();
        let all_distinct: Vec<&&Found> = list.iter().filter(|f| seen_idx.insert(f.idx)).collect();
        // cheap pre-classification: a failing run whose *generated* plan already lies inside an open
        // known-finding pattern (e.g. a configuration class) needs no minimisation
        let mut distinct: Vec<&&Found> = Vec::new();
        let mut pre_known = 0usize;
        for f in all_distinct {
            let hit = scenarios::generate(&prop, seed, f.idx, cfg.tier).and_then(|plan| findings.iter().find(|k| k.matches(oracle, &f.detail, &plan)));
            match hit {
                Some(kf) => {
                    pre_known += 1;
                    let line = format!("KNOWN-FINDING: property={} {} [{}]", kf.property, kf.what, kf.id);
                    if !known_lines.contains(&line) {
                        known_lines.push(line);
                    }
                }
                None => distinct.push(f),
            }
        }
        if pre_known > 0 {
            println!("  {oracle}: {pre_known} failing runs lie inside an open known-finding pattern as generated");
        }
        for f in distinct.iter().take(max_shrinks_per_oracle) {
            let Some(plan) = scenarios::generate(&prop, seed, f.idx, cfg.tier) else { continue };
            let Some(sh) = shrink::shrink(&plan, oracle, 300) else {
                println!("HARNESS ERROR: run {} violated {oracle} in the worker but not when re-run in the master (non-determinism)", f.idx);
                exit = 2;
                continue;
            };
            let detail = sh.outcome.violations.iter().find(|v| v.oracle == *oracle).map(|v| v.detail.clone()).unwrap_or_default();
            if let Some(kf) = findings.iter().find(|k| k.matches(oracle, &detail, &sh.plan)) {
                known_hits += 1;
                let line = format!("KNOWN-FINDING: property={} {} [{}]", kf.property, kf.what, kf.id);
                if !known_lines.contains(&line) {
                    known_lines.push(line);
                }
                continue;
            }
            // a new violation: write replay, self-check in a fresh process
            let dir = format!("{}/replays", verif_root());
            let _ = std::fs::create_dir_all(&dir);
            let path = format!("{dir}/{prop}-{}-{}-{}.json", oracle.replace('.', "_"), seed, f.idx);
            let rp = Replay { property: prop.clone(), oracle: oracle.clone(), detail: detail.clone(), log_hash: sh.outcome.log_hash, plan: sh.plan.clone(), original_seed: seed, shrink_runs: sh.runs };
            std::fs::write(&path, serde_json::to_string_pretty(&rp).unwrap()).expect("write replay");
            if self_replay(&path) {
                new_hits += 1;
                violations_new += 1;
                println!("  {oracle}: {detail}");
                println!("  minimised to {} fault rule(s), {} op(s) in {} runs", sh.plan.faults.len(), sh.plan.ops.len(), sh.runs);
                println!("VIOLATION property={prop} replay={path}");
                replay_paths.push(path.clone());
                samples_viol.push(json!({"oracle": oracle, "detail": detail, "replay": path, "plan": sh.plan}));
                exit = exit.max(1);
            } else {
                println!("HARNESS ERROR: replay {path} did not reproduce in a fresh process");
                exit = 2;
            }
        }
        let rest = distinct.len().saturating_sub(max_shrinks_per_oracle);
        unshrunk_total += rest;
        println!("  {oracle}: {known_hits} matched known findings, {new_hits} new, {rest} further failing runs not minimised");
        if rest > 0 && new_hits == 0 && known_hits > 0 {
            println!("  NOTE: the {rest} unminimised runs fail the same oracle as the known finding(s) above");
        }
    }
    if !br.hangs.is_empty() {
        println!("runs killed by the watchdog (no progress for wall-clock limit): {:?}", br.hangs);
        if prop == "C07" || prop == "C17" {
            for i in br.hangs.iter().take(3) {
                if let Some(plan) = scenarios::generate(&prop, seed, *i, cfg.tier) {
                    let dir = format!("{}/replays", verif_root());
                    let _ = std::fs::create_dir_all(&dir);
                    let path = format!("{dir}/{prop}-hang-{seed}-{i}.json");
                    let rp = Replay { property: prop.clone(), oracle: format!("{prop}.hang"), detail: "run made no progress in wall-clock time".into(), log_hash: 0, plan, original_seed: seed, shrink_runs: 0 };
                    let _ = std::fs::write(&path, serde_json::to_string_pretty(&rp).unwrap());
                    println!("VIOLATION property={prop} replay={path}");
                    exit = exit.max(1);
                    violations_new += 1;
                }
            }
        } else {
            println!("HARNESS ERROR: hang outside C07/C17");
            exit = 2;
        }
    }
    for l in known_lines.iter() {
        println!("{l}");
    }

    // 3. evidence
    let wall = t0.elapsed().as_secs_f64();
    let mut samples: Vec<serde_json::Value> = Vec::new();
    for i in 0..3u64 {
        if let Some(p) = scenarios::generate(&prop, seed, i * 7 + 1, cfg.tier) {
            samples.push(serde_json::to_value(&p).unwrap());
        }
    }
    samples.extend(samples_viol);
    let fault_counts: BTreeMap<&String, &u64> = br.stats.iter().filter(|(k, _)| k.starts_with("fault.")).collect();
    let probes: BTreeMap<&String, &u64> = br.stats.iter().filter(|(k, _)| k.starts_with("probe.") || k.starts_with("escape.")).collect();
    let ev = json!({
        "property_id": prop,
        "tier": if cfg.tier == Tier::Quick { "quick" } else { "thorough" },
        "seed": seed,
        "level": cfg.level,
        "coverage": {
            "evaluations": br.evaluations,
            "distinct_nontrivial": br.distinct_nontrivial,
            "rule": cfg.rule,
            "samples": samples,
            "distinct_semantic_traces": br.distinct,
            "runs_with_fault_during_workload": br.nontrivial,
            "simulated_seconds": br.virt_ms / 1000,
            "events": br.events,
            "runs_per_hour": if wall > 0.0 { (br.evaluations as f64 / wall * 3600.0) as u64 } else { 0 },
            "faults_fired": fault_counts,
            "probes": probes,
            "other_stats": br.stats.iter().filter(|(k, _)| !k.starts_with("fault.") && !k.starts_with("probe.") && !k.starts_with("escape.")).collect::<BTreeMap<_, _>>(),
            "components": cfg.components,
            "known_findings_reported": known_lines,
            "regression_plans_run": regressions_run,
            "unminimised_failing_runs": unshrunk_total,
            "replays": replay_paths,
            "hangs": br.hangs,
        },
        "assumptions": cfg.assumptions,
        "wall_s": wall,
        "violations": violations_new,
    });
    let evdir = format!("{}/evidence", verif_root());
    let _ = std::fs::create_dir_all(&evdir);
    let evpath = format!("{evdir}/{prop}.json");
    std::fs::write(&evpath, serde_json::to_string_pretty(&ev).unwrap()).expect("write evidence");
    if exit == 2 && violations_new > 0 {
        // a violation that was minimised and reproduced in a fresh process stands on its own; harness errors in other
        // runs of the same batch (self-checks tripped by the same broken behaviour, as a rule) do not outrank it
        println!("NOTE: harness errors were reported above as well; the {violations_new} reproduced violation(s) decide the exit code");
        exit = 1;
    }
    println!(
        "{prop}: {} runs, {} distinct semantic traces ({} non-trivial), {} simulated s, {:.1} s wall, {} new violation(s), exit {exit}",
        br.evaluations,
        br.distinct,
        br.distinct_nontrivial,
        br.virt_ms / 1000,
        wall,
        violations_new
    );
    exit
}

/// Determinism self-test: each seed is run in two different worker processes; hashes must agree.
pub fn determinism(prop: &str, n: u64) -> i32 {
    determinism_from(prop, n, 0)
}

/// `from`: first run index compared (properties whose index space is shared by several scenarios, e.g. C14:
/// `determinism C14 600 40000` compares the first 600 runs of the second scenario)
pub fn determinism_from(prop: &str, n: u64, from: u64) -> i32 {
    let seed = env_seed();
    let mut maps: Vec<BTreeMap<u64, (u64, u64)>> = Vec::new();
    for nw in [16u64, 5u64] {
        let (tx, rx) = mpsc::channel();
        let mut procs: Vec<WorkerProc> = (0..nw).map(|w| spawn_worker(prop, Tier::Quick, seed, w, nw, from + n, from, tx.clone())).collect();
        drop(tx);
        let mut m = BTreeMap::new();
        let mut eofs = 0;
        while eofs < nw {
            match rx.recv() {
                Ok(Msg::Result(_, _, v)) => {
                    let idx = v["idx"].as_u64().unwrap();
                    m.insert(idx, (v["o"]["log_hash"].as_u64().unwrap(), v["o"]["events"].as_u64().unwrap()));
                }
                Ok(Msg::Eof(_, _)) => eofs += 1,
                Ok(_) => {}
                Err(_) => break,
            }
        }
        for p in procs.iter_mut() {
            let _ = p.child.wait();
        }
        maps.push(m);
    }
    let mut bad = 0;
    for (k, v) in maps[0].iter() {
        if maps[1].get(k) != Some(v) {
            println!("DIVERGENCE run {k}: {:?} vs {:?}", v, maps[1].get(k));
            bad += 1;
        }
    }
    println!("determinism {prop}: {} runs compared across two process layouts, {} divergent", maps[0].len(), bad);
    if bad > 0 { 2 } else { 0 }
}
