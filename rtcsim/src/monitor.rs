//! Wire monitor: the harness' own decoders (not rustrtc's) for STUN / DTLS / SCTP / RTP
//! framing. It classifies every datagram for fault addressing and feeds wire-level oracles.
use crate::net::{host_name, Monitor, Shared};
use aes_gcm::{aead::{Aead, KeyInit, Payload}, Aes128Gcm, Nonce};
use rustrtc::transports::dtls::{DtlsState, DtlsTransport};
use std::net::{IpAddr, SocketAddr};
use std::sync::{Arc, Mutex};

#[derive(Clone)]
pub struct KeySrc {
    pub host: IpAddr,
    pub dtls: Arc<DtlsTransport>,
    pub is_client: bool,
    /// PeerConnection rig: the DTLS role is decided inside rustrtc; try both write keys
    pub role_unknown: bool,
}
pub type KeyTable = Arc<Mutex<Vec<KeySrc>>>;

#[derive(Clone, Debug)]
pub struct DtlsRecord<'a> {
    pub ct: u8,
    pub epoch: u16,
    pub seq: u64,
    pub body: &'a [u8],
    pub header: &'a [u8],
}

pub fn dtls_records(d: &[u8]) -> Vec<DtlsRecord<'_>> {
    let mut out = Vec::new();
    let mut off = 0;
    while off + 13 <= d.len() {
        let ct = d[off];
        if !(20..=23).contains(&ct) {
            break;
        }
        let epoch = u16::from_be_bytes([d[off + 3], d[off + 4]]);
        let mut sb = [0u8; 8];
        sb[2..].copy_from_slice(&d[off + 5..off + 11]);
        let seq = u64::from_be_bytes(sb);
        let len = u16::from_be_bytes([d[off + 11], d[off + 12]]) as usize;
        if off + 13 + len > d.len() {
            break;
        }
        out.push(DtlsRecord { ct, epoch, seq, body: &d[off + 13..off + 13 + len], header: &d[off..off + 13] });
        off += 13 + len;
    }
    out
}

pub fn hs_name(t: u8) -> &'static str {
    match t {
        0 => "hello_request",
        1 => "client_hello",
        2 => "server_hello",
        3 => "hello_verify_request",
        11 => "certificate",
        12 => "server_key_exchange",
        13 => "certificate_request",
        14 => "server_hello_done",
        15 => "certificate_verify",
        16 => "client_key_exchange",
        20 => "finished",
        _ => "unknown",
    }
}

pub fn chunk_name(t: u8) -> &'static str {
    match t {
        0 => "DATA",
        1 => "INIT",
        2 => "INIT_ACK",
        3 => "SACK",
        4 => "HB",
        5 => "HB_ACK",
        6 => "ABORT",
        7 => "SHUTDOWN",
        8 => "SHUTDOWN_ACK",
        9 => "ERROR",
        10 => "COOKIE_ECHO",
        11 => "COOKIE_ACK",
        14 => "SHUTDOWN_COMPLETE",
        130 => "RECONFIG",
        192 => "FWD_TSN",
        _ => "OTHER",
    }
}

/// Open one epoch>=1 DTLS record (AES-128-GCM, explicit nonce) with the given write key/iv.
pub fn open_record(key: &[u8], iv: &[u8], r: &DtlsRecord<'_>) -> Option<Vec<u8>> {
    if r.body.len() < 24 || key.len() != 16 || iv.len() != 4 {
        return None;
    }
    let mut nonce = [0u8; 12];
    nonce[..4].copy_from_slice(iv);
    nonce[4..].copy_from_slice(&r.body[..8]);
    let mut aad = [0u8; 13];
    aad[..8].copy_from_slice(&r.header[3..11]);
    aad[8] = r.ct;
    aad[9] = r.header[1];
    aad[10] = r.header[2];
    aad[11..].copy_from_slice(&((r.body.len() - 24) as u16).to_be_bytes());
    Aes128Gcm::new_from_slice(key).ok()?.decrypt(Nonce::from_slice(&nonce), Payload { msg: &r.body[8..], aad: &aad }).ok()
}

/// Seal a plaintext into an epoch-1 record the way a key holder would (used by C07/C17 forgers).
pub fn seal_record(key: &[u8], iv: &[u8], ct: u8, epoch: u16, seq: u64, plain: &[u8]) -> Vec<u8> {
    use aes_gcm::aead::Aead;
    let mut hdr = vec![ct, 0xfe, 0xfd];
    hdr.extend_from_slice(&epoch.to_be_bytes());
    hdr.extend_from_slice(&seq.to_be_bytes()[2..]);
    let mut explicit = [0u8; 8];
    explicit[..2].copy_from_slice(&epoch.to_be_bytes());
    explicit[2..].copy_from_slice(&seq.to_be_bytes()[2..]);
    let mut nonce = [0u8; 12];
    nonce[..4].copy_from_slice(iv);
    nonce[4..].copy_from_slice(&explicit);
    let mut aad = [0u8; 13];
    aad[..2].copy_from_slice(&epoch.to_be_bytes());
    aad[2..8].copy_from_slice(&seq.to_be_bytes()[2..]);
    aad[8] = ct;
    aad[9] = 0xfe;
    aad[10] = 0xfd;
    aad[11..].copy_from_slice(&(plain.len() as u16).to_be_bytes());
    let c = Aes128Gcm::new_from_slice(key).unwrap().encrypt(Nonce::from_slice(&nonce), Payload { msg: plain, aad: &aad }).unwrap();
    let len = (8 + c.len()) as u16;
    hdr.extend_from_slice(&len.to_be_bytes());
    hdr.extend_from_slice(&explicit);
    hdr.extend_from_slice(&c);
    hdr
}

#[derive(Clone, Debug)]
pub struct Chunk {
    pub ty: u8,
    pub flags: u8,
    pub value: Vec<u8>,
}
#[derive(Clone, Debug)]
pub struct SctpPacket {
    pub src_port: u16,
    pub dst_port: u16,
    pub vtag: u32,
    pub checksum: u32,
    pub crc_ok: bool,
    pub chunks: Vec<Chunk>,
    pub len: usize,
}

/// Table-driven CRC32c (Castagnoli), written here so the oracle does not reuse rustrtc's dependency.
pub fn crc32c(data: &[u8]) -> u32 {
    static TABLE: std::sync::OnceLock<[u32; 256]> = std::sync::OnceLock::new();
    let t = TABLE.get_or_init(|| {
        let mut t = [0u32; 256];
        for i in 0..256u32 {
            let mut c = i;
            for _ in 0..8 {
                c = if c & 1 != 0 { 0x82F63B78 ^ (c >> 1) } else { c >> 1 };
            }
            t[i as usize] = c;
        }
        t
    });
    let mut c = !0u32;
    for b in data {
        c = t[((c ^ *b as u32) & 0xff) as usize] ^ (c >> 8);
    }
    !c
}

pub fn parse_sctp(p: &[u8]) -> Option<SctpPacket> {
    if p.len() < 12 {
        return None;
    }
    let src_port = u16::from_be_bytes([p[0], p[1]]);
    let dst_port = u16::from_be_bytes([p[2], p[3]]);
    let vtag = u32::from_be_bytes([p[4], p[5], p[6], p[7]]);
    let checksum = u32::from_le_bytes([p[8], p[9], p[10], p[11]]);
    let mut z = p.to_vec();
    z[8..12].fill(0);
    let crc_ok = crc32c(&z) == checksum;
    let mut chunks = Vec::new();
    let mut off = 12;
    while off + 4 <= p.len() {
        let ty = p[off];
        let flags = p[off + 1];
        let l = u16::from_be_bytes([p[off + 2], p[off + 3]]) as usize;
        if l < 4 || off + l > p.len() {
            break;
        }
        chunks.push(Chunk { ty, flags, value: p[off + 4..off + l].to_vec() });
        off += (l + 3) & !3;
    }
    Some(SctpPacket { src_port, dst_port, vtag, checksum, crc_ok, chunks, len: p.len() })
}

/// Observer of decrypted SCTP packets and other decoded traffic (per-property wire oracles plug in here).
pub trait WireOracle: Send {
    fn on_sctp(&mut self, _from_host: &str, _pkt: &SctpPacket, _sh: &mut Shared) {}
    fn on_sctp_deliver(&mut self, _from_host: &str, _pkt: &SctpPacket, _sh: &mut Shared) {}
    fn on_dtls_record(&mut self, _from_host: &str, _rec: &DtlsRecord<'_>, _plain: Option<&[u8]>, _dgram_len: usize, _sh: &mut Shared) {}
    fn on_other(&mut self, _from: SocketAddr, _to: SocketAddr, _data: &[u8], _class: &str, _sh: &mut Shared) {}
}

pub struct StdMonitor {
    pub keys: KeyTable,
    pub oracles: Vec<Box<dyn WireOracle>>,
}

impl StdMonitor {
    pub fn new(keys: KeyTable) -> Self {
        StdMonitor { keys, oracles: Vec::new() }
    }
    fn write_key(&self, from: IpAddr) -> Option<(Vec<u8>, Vec<u8>)> {
        let ks = self.keys.lock().unwrap();
        let k = ks.iter().find(|k| k.host == from)?;
        if let DtlsState::Connected(c, _) = k.dtls.get_state() {
            if k.is_client {
                Some((c.keys.client_write_key.clone(), c.keys.client_write_iv.clone()))
            } else {
                Some((c.keys.server_write_key.clone(), c.keys.server_write_iv.clone()))
            }
        } else {
            None
        }
    }
    /// the other direction's key of the same session (used when the DTLS role of a host is not known)
    fn alt_key(&self, from: IpAddr) -> Option<(Vec<u8>, Vec<u8>)> {
        let ks = self.keys.lock().unwrap();
        let k = ks.iter().find(|k| k.host == from && k.role_unknown)?;
        if let DtlsState::Connected(c, _) = k.dtls.get_state() {
            Some((c.keys.server_write_key.clone(), c.keys.server_write_iv.clone()))
        } else {
            None
        }
    }
    fn walk(&mut self, from: SocketAddr, to: SocketAddr, d: &[u8], sh: &mut Shared, deliver: bool) -> Vec<String> {
        let mut toks: Vec<String> = Vec::new();
        let push = |toks: &mut Vec<String>, t: String| {
            if !toks.contains(&t) {
                toks.push(t)
            }
        };
        let host = host_name(from.ip());
        if d.is_empty() {
            return vec!["empty".into()];
        }
        let b0 = d[0];
        if b0 < 4 && d.len() >= 20 && d[4..8] == [0x21, 0x12, 0xA4, 0x42] {
            let ty = u16::from_be_bytes([d[0], d[1]]);
            let class = match ty & 0x0110 {
                0x0000 => "req",
                0x0010 => "ind",
                0x0100 => "resp",
                _ => "err",
            };
            push(&mut toks, "STUN".into());
            push(&mut toks, format!("STUN:{class}"));
            if !deliver {
                for o in self.oracles.iter_mut() {
                    o.on_other(from, to, d, "STUN", sh);
                }
            }
        } else if (20..=23).contains(&b0) && d.len() >= 13 {
            push(&mut toks, "DTLS".into());
            let recs = dtls_records(d);
            if recs.is_empty() {
                push(&mut toks, "DTLS:malformed".into());
            }
            let key = self.write_key(from.ip());
            let alt = self.alt_key(from.ip());
            for r in recs.iter() {
                match (r.ct, r.epoch) {
                    (22, 0) => {
                        push(&mut toks, "DTLS:hs".into());
                        push(&mut toks, format!("DTLS:hs:{}", hs_name(r.body.first().copied().unwrap_or(255))));
                        if !deliver {
                            for o in self.oracles.iter_mut() {
                                o.on_dtls_record(&host, r, None, d.len(), sh);
                            }
                        }
                    }
                    (22, _) => {
                        push(&mut toks, "DTLS:hs".into());
                        push(&mut toks, "DTLS:hs:finished".into());
                        if !deliver {
                            for o in self.oracles.iter_mut() {
                                o.on_dtls_record(&host, r, None, d.len(), sh);
                            }
                        }
                    }
                    (20, _) => {
                        push(&mut toks, "DTLS:ccs".into());
                        if !deliver {
                            for o in self.oracles.iter_mut() {
                                o.on_dtls_record(&host, r, None, d.len(), sh);
                            }
                        }
                    }
                    (21, _) => {
                        push(&mut toks, "DTLS:alert".into());
                        if !deliver {
                            for o in self.oracles.iter_mut() {
                                o.on_dtls_record(&host, r, None, d.len(), sh);
                            }
                        }
                    }
                    (23, e) => {
                        push(&mut toks, "DTLS:app".into());
                        let plain = if e > 0 {
                            key.as_ref().and_then(|(k, iv)| open_record(k, iv, r)).or_else(|| alt.as_ref().and_then(|(k, iv)| open_record(k, iv, r)))
                        } else {
                            None
                        };
                        if !deliver {
                            for o in self.oracles.iter_mut() {
                                o.on_dtls_record(&host, r, plain.as_deref(), d.len(), sh);
                            }
                        }
                        match plain {
                            Some(pt) => {
                                if let Some(pkt) = parse_sctp(&pt) {
                                    push(&mut toks, "SCTP".into());
                                    for c in pkt.chunks.iter() {
                                        push(&mut toks, format!("SCTP:{}", chunk_name(c.ty)));
                                    }
                                    for o in self.oracles.iter_mut() {
                                        if deliver {
                                            o.on_sctp_deliver(&host, &pkt, sh);
                                        } else {
                                            o.on_sctp(&host, &pkt, sh);
                                        }
                                    }
                                }
                            }
                            None => push(&mut toks, if e == 0 { "DTLS:app:plain".into() } else { "DTLS:app:opaque".into() }),
                        }
                    }
                    _ => {}
                }
            }
        } else if (128..192).contains(&b0) && d.len() >= 8 {
            let class = if (192..=223).contains(&d[1]) { "RTCP" } else { "RTP" };
            push(&mut toks, class.into());
            if !deliver {
                for o in self.oracles.iter_mut() {
                    o.on_other(from, to, d, class, sh);
                }
            }
        } else {
            push(&mut toks, "other".into());
            if !deliver {
                for o in self.oracles.iter_mut() {
                    o.on_other(from, to, d, "other", sh);
                }
            }
        }
        toks
    }
}

impl Monitor for StdMonitor {
    fn classify(&mut self, from: SocketAddr, to: SocketAddr, data: &[u8], sh: &mut Shared) -> Vec<String> {
        self.walk(from, to, data, sh, false)
    }
    fn on_deliver(&mut self, from: SocketAddr, to: SocketAddr, data: &[u8], sh: &mut Shared) {
        let _ = self.walk(from, to, data, sh, true);
    }
}
